//! Minimal signed arbitrary-precision integer: only what exact determinant signs need
//! (`+`, `-`, `*`, comparison, shift-left, approximate magnitude). No division.

use std::cmp::Ordering;

#[derive(Clone, Debug, PartialEq, Eq)]
pub struct BigInt {
    /// -1, 0, 1
    sign: i8,
    /// little-endian base 2^32 magnitude, no trailing zero limbs; empty iff zero
    mag: Vec<u32>,
}

fn trim(v: &mut Vec<u32>) {
    while v.last() == Some(&0) {
        v.pop();
    }
}

fn cmp_mag(a: &[u32], b: &[u32]) -> Ordering {
    if a.len() != b.len() {
        return a.len().cmp(&b.len());
    }
    for i in (0..a.len()).rev() {
        if a[i] != b[i] {
            return a[i].cmp(&b[i]);
        }
    }
    Ordering::Equal
}

fn add_mag(a: &[u32], b: &[u32]) -> Vec<u32> {
    let (a, b) = if a.len() >= b.len() { (a, b) } else { (b, a) };
    let mut out = Vec::with_capacity(a.len() + 1);
    let mut carry = 0u64;
    for i in 0..a.len() {
        let s = a[i] as u64 + if i < b.len() { b[i] as u64 } else { 0 } + carry;
        out.push(s as u32);
        carry = s >> 32;
    }
    if carry > 0 {
        out.push(carry as u32);
    }
    out
}

/// a - b where |a| >= |b|
fn sub_mag(a: &[u32], b: &[u32]) -> Vec<u32> {
    let mut out = Vec::with_capacity(a.len());
    let mut borrow = 0i64;
    for i in 0..a.len() {
        let mut d = a[i] as i64 - borrow - if i < b.len() { b[i] as i64 } else { 0 };
        if d < 0 {
            d += 1 << 32;
            borrow = 1;
        } else {
            borrow = 0;
        }
        out.push(d as u32);
    }
    debug_assert_eq!(borrow, 0);
    trim(&mut out);
    out
}

fn mul_mag(a: &[u32], b: &[u32]) -> Vec<u32> {
    if a.is_empty() || b.is_empty() {
        return Vec::new();
    }
    let mut out = vec![0u32; a.len() + b.len()];
    for i in 0..a.len() {
        let mut carry = 0u64;
        let ai = a[i] as u64;
        for j in 0..b.len() {
            let t = ai * b[j] as u64 + out[i + j] as u64 + carry;
            out[i + j] = t as u32;
            carry = t >> 32;
        }
        let mut k = i + b.len();
        while carry > 0 {
            let t = out[k] as u64 + carry;
            out[k] = t as u32;
            carry = t >> 32;
            k += 1;
        }
    }
    trim(&mut out);
    out
}

impl BigInt {
    pub fn zero() -> Self {
        BigInt { sign: 0, mag: Vec::new() }
    }
    pub fn one() -> Self {
        Self::from_i128(1)
    }
    pub fn from_i128(v: i128) -> Self {
        if v == 0 {
            return Self::zero();
        }
        let sign = if v < 0 { -1 } else { 1 };
        let mut m = v.unsigned_abs();
        let mut mag = Vec::new();
        while m > 0 {
            mag.push(m as u32);
            m >>= 32;
        }
        BigInt { sign, mag }
    }
    pub fn is_zero(&self) -> bool {
        self.sign == 0
    }
    pub fn signum(&self) -> i32 {
        self.sign as i32
    }
    pub fn neg(&self) -> Self {
        BigInt { sign: -self.sign, mag: self.mag.clone() }
    }
    pub fn shl(&self, bits: u32) -> Self {
        if self.sign == 0 || bits == 0 {
            return self.clone();
        }
        let limbs = (bits / 32) as usize;
        let rem = bits % 32;
        let mut mag = vec![0u32; limbs];
        if rem == 0 {
            mag.extend_from_slice(&self.mag);
        } else {
            let mut carry = 0u32;
            for &l in &self.mag {
                mag.push((l << rem) | carry);
                carry = l >> (32 - rem);
            }
            if carry > 0 {
                mag.push(carry);
            }
        }
        BigInt { sign: self.sign, mag }
    }
    pub fn add(&self, o: &Self) -> Self {
        if self.sign == 0 {
            return o.clone();
        }
        if o.sign == 0 {
            return self.clone();
        }
        if self.sign == o.sign {
            return BigInt { sign: self.sign, mag: add_mag(&self.mag, &o.mag) };
        }
        match cmp_mag(&self.mag, &o.mag) {
            Ordering::Equal => Self::zero(),
            Ordering::Greater => BigInt { sign: self.sign, mag: sub_mag(&self.mag, &o.mag) },
            Ordering::Less => BigInt { sign: o.sign, mag: sub_mag(&o.mag, &self.mag) },
        }
    }
    pub fn sub(&self, o: &Self) -> Self {
        self.add(&o.neg())
    }
    pub fn mul(&self, o: &Self) -> Self {
        if self.sign == 0 || o.sign == 0 {
            return Self::zero();
        }
        BigInt { sign: self.sign * o.sign, mag: mul_mag(&self.mag, &o.mag) }
    }
    pub fn cmp(&self, o: &Self) -> Ordering {
        if self.sign != o.sign {
            return self.sign.cmp(&o.sign);
        }
        match self.sign {
            0 => Ordering::Equal,
            1 => cmp_mag(&self.mag, &o.mag),
            _ => cmp_mag(&o.mag, &self.mag),
        }
    }
    pub fn bits(&self) -> u64 {
        match self.mag.last() {
            None => 0,
            Some(&t) => (self.mag.len() as u64 - 1) * 32 + (32 - t.leading_zeros() as u64),
        }
    }
    /// Approximate value as (mantissa in [0.5,1) or 0, exponent): value ~= m * 2^e. Relative error < 2^-52.
    pub fn to_f64_exp(&self) -> (f64, i64) {
        if self.sign == 0 {
            return (0.0, 0);
        }
        let n = self.mag.len();
        let mut top: u128 = 0;
        let take = n.min(3);
        for i in 0..take {
            top = (top << 32) | self.mag[n - 1 - i] as u128;
        }
        let dropped_limbs = (n - take) as i64;
        let tb = 128 - top.leading_zeros() as i64;
        let m = (top as f64) / 2f64.powi(tb as i32);
        (m * self.sign as f64, tb + 32 * dropped_limbs)
    }
    /// Approximate value as f64 (may be +-inf or 0 on over/underflow of the exponent range).
    pub fn to_f64(&self) -> f64 {
        let (m, e) = self.to_f64_exp();
        if e > 2000 {
            return m * f64::INFINITY;
        }
        m * 2f64.powi(e as i32)
    }
}

#[cfg(test)]
mod tests {
    use super::*;
    #[test]
    fn arith_matches_i128() {
        let vals: Vec<i128> = vec![0, 1, -1, 7, -13, 1 << 40, -(1 << 50) + 3, (1 << 62) - 1, 123456789012345678];
        for &a in &vals {
            for &b in &vals {
                let (x, y) = (BigInt::from_i128(a), BigInt::from_i128(b));
                assert_eq!(x.add(&y), BigInt::from_i128(a + b));
                assert_eq!(x.sub(&y), BigInt::from_i128(a - b));
                assert_eq!(x.mul(&y), BigInt::from_i128(a * b));
                assert_eq!(x.cmp(&y), a.cmp(&b));
                assert_eq!(x.shl(7), BigInt::from_i128(a << 7));
                assert_eq!(x.shl(33), BigInt::from_i128(a << 33));
                let f = x.to_f64();
                assert!((f - a as f64).abs() <= (a as f64).abs() * 1e-15);
            }
        }
        let big = BigInt::from_i128(i128::MAX).mul(&BigInt::from_i128(i128::MAX));
        assert_eq!(big.bits(), 254);
        assert_eq!(big.sub(&big), BigInt::zero());
    }
}
