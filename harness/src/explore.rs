//! Explicit-state breadth-first explorer whose transition function is the real method call (DESIGN 2.4).

use rayon::prelude::*;
use std::collections::HashSet;
use std::sync::Mutex;
use std::sync::atomic::{AtomicU64, Ordering};
use std::time::Instant;

pub trait Model: Sync {
    type State: Send + Sync;
    type Op: Send + Sync + Clone + std::fmt::Debug;
    /// dedup key (ordered dump digest)
    fn key(&self, s: &Self::State) -> u128;
    /// finite menu of operations enabled in `s` (computed from the state); `hist` is the path that reached it
    fn ops(&self, s: &Self::State, hist: &[Self::Op]) -> Vec<Self::Op>;
    /// apply `op` to a copy of `s`, run the per-transition and per-state oracles, return the successor
    /// (None = do not expand, e.g. after a panic or a violation)
    fn step(&self, s: &Self::State, op: &Self::Op, hist: &[Self::Op]) -> Option<Self::State>;
}

#[derive(Clone, Debug, Default)]
pub struct Caps {
    pub max_states_per_level: usize,
    pub wall_s: f64,
}

#[derive(Clone, Debug, Default)]
pub struct Stats {
    /// transitions executed twice (chosen by VERIF_SEED) whose successor keys were compared
    pub determinism_replays: u64,
    pub states: u64,
    pub transitions: u64,
    pub depth_completed: usize,
    pub level_sizes: Vec<usize>,
    pub caps_hit: Vec<String>,
}

const SHARDS: usize = 64;

struct Seen {
    shards: Vec<Mutex<HashSet<u128>>>,
}
impl Seen {
    fn new() -> Self {
        Seen { shards: (0..SHARDS).map(|_| Mutex::new(HashSet::new())).collect() }
    }
    fn insert(&self, k: u128) -> bool {
        self.shards[(k as usize) % SHARDS].lock().unwrap().insert(k)
    }
    fn len(&self) -> usize {
        self.shards.iter().map(|s| s.lock().unwrap().len()).sum()
    }
}

/// BFS to `max_depth` transitions from the seeds. A level is either explored completely or not at all:
/// when a cap is hit the last fully completed depth is reported.
pub fn bfs<M: Model>(m: &M, seeds: Vec<(M::State, Vec<M::Op>)>, max_depth: usize, caps: &Caps) -> Stats {
    let t0 = Instant::now();
    let seen = Seen::new();
    let transitions = AtomicU64::new(0);
    let replays = AtomicU64::new(0);
    let seed: u64 = std::env::var("VERIF_SEED").ok().and_then(|s| s.parse().ok()).unwrap_or(0);
    let mut frontier: Vec<(M::State, Vec<M::Op>)> = Vec::new();
    for (s, h) in seeds {
        if seen.insert(m.key(&s)) {
            frontier.push((s, h));
        }
    }
    let mut stats = Stats::default();
    stats.level_sizes.push(frontier.len());
    for depth in 0..max_depth {
        if frontier.is_empty() {
            stats.depth_completed = max_depth;
            break;
        }
        if caps.max_states_per_level > 0 && frontier.len() > caps.max_states_per_level {
            stats.caps_hit.push(format!("level {depth} has {} states > cap {}", frontier.len(), caps.max_states_per_level));
            break;
        }
        if caps.wall_s > 0.0 && t0.elapsed().as_secs_f64() > caps.wall_s {
            stats.caps_hit.push(format!("wall cap {}s reached before level {depth}", caps.wall_s));
            break;
        }
        let next: Vec<(M::State, Vec<M::Op>)> = frontier
            .par_iter()
            .flat_map_iter(|(s, hist)| {
                let mut out = Vec::new();
                for op in m.ops(s, hist) {
                    transitions.fetch_add(1, Ordering::Relaxed);
                    if let Some(n) = m.step(s, &op, hist) {
                        // determinism self-check (DESIGN 2.7): a seed-chosen subset of transitions is executed twice
                        let kn = m.key(&n);
                        if (kn as u64 ^ seed.wrapping_mul(0x9e37_79b9_7f4a_7c15)) % 251 == 0 {
                            replays.fetch_add(1, Ordering::Relaxed);
                            match crate::report::quietly(|| m.step(s, &op, hist)) {
                                Some(n2) if m.key(&n2) == kn => {}
                                _ => {
                                    eprintln!("MACHINERY: non-deterministic transition {op:?} after {hist:?}");
                                    std::process::exit(2);
                                }
                            }
                        }
                        if seen.insert(kn) {
                            let mut h = hist.clone();
                            h.push(op);
                            out.push((n, h));
                        }
                    }
                }
                out
            })
            .collect();
        stats.depth_completed = depth + 1;
        stats.level_sizes.push(next.len());
        frontier = next;
    }
    stats.states = seen.len() as u64;
    stats.transitions = transitions.load(Ordering::Relaxed);
    stats.determinism_replays = replays.load(Ordering::Relaxed);
    stats
}
