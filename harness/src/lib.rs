//! Core of the bounded-exhaustive verification harness for `delaunay` (see /verif/DESIGN.md).
#![allow(clippy::all)]
pub mod alpha;
pub mod bigint;
pub mod corpus;
pub mod dtx;
pub mod exact;
pub mod explore;
pub mod model;
pub mod refval;
pub mod replay;
pub mod report;
pub mod snap;
