//! State corpora shared by the state-quantified properties: flip-graph closures and small
//! constructed / incrementally built / after-removal triangulations.

use crate::alpha::mk_vertex;
use crate::dtx::reference_verdict;
use crate::exact;
use crate::model::{self, DtI, Op, Outcome};
use crate::snap::{Snap, digest};
use delaunay::core::delaunay_triangulation::{ConstructionOptions, DelaunayTriangulation};
use delaunay::core::triangulation::TopologyGuarantee;
use delaunay::geometry::kernel::Kernel;
use std::collections::HashSet;

/// batch-construct a seed (default options, given guarantee); data = input index
pub fn build<K: Kernel<D, Scalar = f64>, const D: usize>(pts: &[[f64; D]], g: TopologyGuarantee) -> Option<DtI<K, D>> {
    let vs: Vec<_> = pts.iter().enumerate().map(|(i, c)| mk_vertex::<i32, D>(*c, 1 + i as u128, Some(i as i32))).collect();
    DelaunayTriangulation::with_topology_guarantee_and_options(&K::default(), &vs, g, ConstructionOptions::default()).ok()
}

/// state identity for closures: the set of cells as sorted vertex-UUID sets (+ vertex set)
pub fn cellset_digest<const D: usize>(s: &Snap<D>) -> u128 {
    let mut v: Vec<String> = s.verts.iter().map(|x| x.uuid.simple().to_string()).collect();
    v.sort();
    digest(&format!("{:?}|{:?}", v, s.cell_sets()))
}

/// "valid" in the sense of the properties' precondition: reference L1-L3 (PL-manifold incl. vertex links)
/// and convex embedding.
pub fn is_valid_triangulation<K: Kernel<D, Scalar = f64>, const D: usize>(dt: &DtI<K, D>) -> bool {
    let (s, v) = reference_verdict(dt, true, true);
    s.n_cells() > 0 && v.ok123() && v.embedding.is_empty()
}

pub struct Closure<K: Kernel<D, Scalar = f64>, const D: usize> {
    /// (state, valid?, flip distance from the seed)
    pub states: Vec<(DtI<K, D>, bool, usize)>,
    pub transitions: u64,
    pub ok_transitions: u64,
    pub capped: bool,
}

/// Complete closure of `seed` under the k>=2 Edit-API flips (vertex set fixed). `expand_invalid` also
/// expands states that are not valid triangulations (combinatorial closure); otherwise only valid ones.
pub fn flip_closure<K: Kernel<D, Scalar = f64>, const D: usize>(seed: &DtI<K, D>, expand_invalid: bool, cap: usize) -> Closure<K, D> {
    let mut seen: HashSet<u128> = HashSet::new();
    let mut out: Vec<(DtI<K, D>, bool, usize)> = Vec::new();
    let mut frontier: Vec<usize> = Vec::new();
    let s0 = crate::dtx::snap_of(seed);
    seen.insert(cellset_digest(&s0));
    out.push((seed.clone(), is_valid_triangulation(seed), 0));
    frontier.push(0);
    let (mut transitions, mut ok_transitions) = (0u64, 0u64);
    let mut capped = false;
    let mut dist = 0usize;
    while !frontier.is_empty() && !capped {
        dist += 1;
        let mut next = Vec::new();
        for &i in &frontier {
            let (valid, base) = (out[i].1, out[i].0.clone());
            if !valid && !expand_invalid {
                continue;
            }
            let ops: Vec<Op> = model::flip_ops(&base, &[], 0).into_iter().filter(|o| matches!(o, Op::K2 { .. } | Op::K3 { .. } | Op::K2Inv { .. } | Op::K3Inv { .. })).collect();
            for op in ops {
                transitions += 1;
                let mut dt = base.clone();
                if let Outcome::Ok { .. } = model::apply(&mut dt, &op, &[]) {
                    ok_transitions += 1;
                    let s = crate::dtx::snap_of(&dt);
                    if seen.insert(cellset_digest(&s)) {
                        if out.len() >= cap {
                            capped = true;
                            break;
                        }
                        let v = is_valid_triangulation(&dt);
                        out.push((dt, v, dist));
                        next.push(out.len() - 1);
                    }
                }
            }
            if capped {
                break;
            }
        }
        frontier = next;
    }
    Closure { states: out, transitions, ok_transitions, capped }
}

/// exact general position "outside the band": every (D+1)-subset certainly non-degenerate and every
/// (D+2)-subset certainly not cospherical
pub fn general_position<const D: usize>(pts: &[[f64; D]]) -> bool {
    let n = pts.len();
    let mut ok = true;
    crate::alpha::for_each_subset(n, D + 1, |s| {
        if !ok {
            return;
        }
        let r: Vec<&[f64]> = s.iter().map(|&i| &pts[i][..]).collect();
        let o = exact::orient(&r);
        let (t, e) = exact::orient_band(&r);
        if o.sign == 0 || o.mag <= 4.0 * t + e {
            ok = false;
        }
    });
    if !ok {
        return false;
    }
    crate::alpha::for_each_subset(n, D + 2, |s| {
        if !ok {
            return;
        }
        // check with each point as the query (the determinant is the same up to sign; one suffices)
        let r: Vec<&[f64]> = s[..D + 1].iter().map(|&i| &pts[i][..]).collect();
        let q = &pts[s[D + 1]];
        let l = exact::insphere_det(&r, q);
        let (t, e) = exact::insphere_band(&r, q);
        if l.sign == 0 || l.mag <= 4.0 * t + e {
            ok = false;
        }
    });
    ok
}

/// Reference Delaunay triangulation of a general-position point set: all (D+1)-subsets whose open
/// circumball contains no other point (as sorted index lists). O(n^(D+2)) exact tests.
pub fn reference_delaunay<const D: usize>(pts: &[[f64; D]]) -> Vec<Vec<usize>> {
    let n = pts.len();
    let mut cells = Vec::new();
    crate::alpha::for_each_subset(n, D + 1, |s| {
        let r: Vec<&[f64]> = s.iter().map(|&i| &pts[i][..]).collect();
        if exact::orient(&r).sign == 0 {
            return;
        }
        let mut empty = true;
        for (j, p) in pts.iter().enumerate() {
            if s.contains(&j) {
                continue;
            }
            if exact::insphere(&r, p).map(|e| e.sign).unwrap_or(0) >= 0 {
                empty = false;
                break;
            }
        }
        if empty {
            cells.push(s.to_vec());
        }
    });
    cells.sort();
    cells
}

/// cells of a snapshot as sorted lists of indices into `pts` (matched on coordinate bits); None if a vertex is not in `pts`
pub fn cells_as_indices<const D: usize>(s: &Snap<D>, pts: &[[f64; D]]) -> Option<Vec<Vec<usize>>> {
    let idx = |c: &[f64; D]| pts.iter().position(|p| p.iter().zip(c.iter()).all(|(a, b)| a.to_bits() == b.to_bits() || (*a == 0.0 && *b == 0.0)));
    let mut out = Vec::new();
    for c in &s.cells {
        let mut v = Vec::new();
        for &vi in &c.vi {
            v.push(idx(&s.verts[vi].c)?);
        }
        v.sort();
        out.push(v);
    }
    out.sort();
    Some(out)
}

/// Valid triangulations of (subsets of) `pts` reachable through the public API: the batch-constructed one,
/// every valid state of its flip closure (cap-bounded), the incremental (input-order) build, and the
/// valid results of removing each vertex. Each comes with a short provenance label.
pub fn state_corpus<K: Kernel<D, Scalar = f64>, const D: usize>(pts: &[[f64; D]], closure_cap: usize) -> Vec<(String, DtI<K, D>)> {
    let mut out: Vec<(String, DtI<K, D>)> = Vec::new();
    if let Some(seed) = build::<K, D>(pts, TopologyGuarantee::PLManifold) {
        let cl = flip_closure(&seed, false, closure_cap);
        for (dt, valid, dist) in cl.states {
            if valid {
                out.push((format!("flip_closure(dist={dist})"), dt));
            }
        }
        for v in 0..seed.number_of_vertices() {
            let mut d = seed.clone();
            if let Outcome::Ok { .. } = model::apply(&mut d, &Op::Remove { v }, &[]) {
                if is_valid_triangulation(&d) {
                    out.push((format!("after_remove({v})"), d));
                }
            }
        }
    }
    let mut d: DtI<K, D> = DelaunayTriangulation::with_empty_kernel(K::default());
    let alphabet: Vec<[f64; D]> = pts.to_vec();
    for p in 0..alphabet.len() {
        let _ = model::apply(&mut d, &Op::Insert { p, uid: p as u32, stats: false }, &alphabet);
    }
    if is_valid_triangulation(&d) {
        out.push(("incremental".to_string(), d));
    }
    if let Some(d) = build_recycled::<K, D>(pts, TopologyGuarantee::PLManifold) {
        out.push(("recycled_slots".to_string(), d));
    }
    out
}

/// Incremental build of `pts` in which every vertex slot was occupied and vacated before the real vertex moved in,
/// earlier slots more often than later ones: the stored keys have *descending versions with ascending slot index*, so
/// every pair of vertices is ordered differently by (index, version) and by the raw key value. Such keys arise in any
/// long-lived triangulation (insertions after removals) but never in a freshly built one.
/// Dummies are inserted and removed through `insert` / `remove_vertex` while there are no cells and through the
/// Edit API (k=1 insert at the barycentre of the first cell, k=1 remove) afterwards.
pub fn build_recycled<K: Kernel<D, Scalar = f64>, const D: usize>(pts: &[[f64; D]], g: TopologyGuarantee) -> Option<DtI<K, D>> {
    let mut dt: DtI<K, D> = DelaunayTriangulation::with_empty_kernel_and_topology_guarantee(K::default(), g);
    let n = pts.len();
    let mut uid = 50_000u32;
    let find = |dt: &DtI<K, D>, c: &[f64; D]| dt.vertices().position(|(_, v)| v.point().coords() == c);
    for (j, p) in pts.iter().enumerate() {
        for c in 0..(n - j) {
            uid += 1;
            if dt.number_of_cells() == 0 {
                let dummy: [f64; D] = std::array::from_fn(|i| 1000.0 + 37.0 * (i as f64 + 1.0) * (c as f64 + 1.0) + j as f64);
                if !matches!(model::apply(&mut dt, &Op::InsertAt { c: dummy.to_vec(), uid, stats: false }, &[]), Outcome::Ok { .. }) {
                    return None;
                }
                // the dummy is the most recently stored vertex; find it by its (possibly perturbed) distance to the target
                let idx = dt.vertices().enumerate().min_by(|a, b| {
                    let da: f64 = (0..D).map(|k| (a.1.1.point().coords()[k] - dummy[k]).powi(2)).sum();
                    let db: f64 = (0..D).map(|k| (b.1.1.point().coords()[k] - dummy[k]).powi(2)).sum();
                    da.total_cmp(&db)
                })?.0;
                if !matches!(model::apply(&mut dt, &Op::Remove { v: idx }, &[]), Outcome::Ok { .. }) {
                    return None;
                }
            } else {
                let first = dt.cells().next()?.1;
                let keys = first.vertices().to_vec();
                let mut bc = [0.0; D];
                for k in &keys {
                    let q = dt.tds().get_vertex_by_key(*k)?.point().coords();
                    for i in 0..D {
                        bc[i] += q[i] / (D as f64 + 1.0);
                    }
                }
                if !matches!(model::apply(&mut dt, &Op::K1Insert { cell: 0, c: bc.to_vec(), uid }, &[]), Outcome::Ok { .. }) {
                    return None;
                }
                let idx = find(&dt, &bc)?;
                if !matches!(model::apply(&mut dt, &Op::K1Remove { v: idx }, &[]), Outcome::Ok { .. }) {
                    return None;
                }
            }
        }
        if !matches!(model::apply(&mut dt, &Op::InsertAt { c: p.to_vec(), uid: 40_000 + j as u32, stats: false }, &[]), Outcome::Ok { .. }) {
            return None;
        }
    }
    (dt.number_of_vertices() == n && is_valid_triangulation(&dt)).then_some(dt)
}

/// number of vertex pairs that (index, version) order and raw key order rank differently
pub fn key_order_inversions<K: Kernel<D, Scalar = f64>, const D: usize>(dt: &DtI<K, D>) -> usize {
    let ks: Vec<u64> = dt.vertices().map(|(k, _)| crate::snap::kffi(k)).collect();
    let mut n = 0;
    for a in 0..ks.len() {
        for b in 0..ks.len() {
            let (ia, va, ib, vb) = (ks[a] & 0xffff_ffff, ks[a] >> 32, ks[b] & 0xffff_ffff, ks[b] >> 32);
            if (ia, va) < (ib, vb) && ks[a] > ks[b] {
                n += 1;
            }
        }
    }
    n
}
