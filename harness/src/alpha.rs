//! Alphabets: exact point grids, subset / permutation enumerators, deterministic vertices.

use crate::snap::uuid_v4_from;
use delaunay::core::traits::data_type::DataType;
use delaunay::core::vertex::Vertex;
use delaunay::geometry::point::Point;
use delaunay::geometry::traits::coordinate::Coordinate;

/// full grid {0..g-1}^D in lexicographic order
pub fn grid<const D: usize>(g: usize) -> Vec<[f64; D]> {
    let mut out = Vec::new();
    let total = g.pow(D as u32);
    for mut i in 0..total {
        let mut p = [0.0; D];
        for j in (0..D).rev() {
            p[j] = (i % g) as f64;
            i /= g;
        }
        out.push(p);
    }
    out
}

/// DESIGN section 3 `G4` / `G5`-style alphabets for D >= 4: origin, 2 e_i, (2,..,2), (1,..,1) and a few face centres
pub fn cube_alphabet<const D: usize>() -> Vec<[f64; D]> {
    let mut out: Vec<[f64; D]> = Vec::new();
    out.push([0.0; D]);
    for i in 0..D {
        let mut p = [0.0; D];
        p[i] = 2.0;
        out.push(p);
    }
    out.push([2.0; D]);
    out.push([1.0; D]);
    // two low-dimensional face centres
    let mut p = [0.0; D];
    p[0] = 1.0;
    p[1] = 1.0;
    out.push(p);
    let mut p = [0.0; D];
    p[0] = 1.0;
    out.push(p);
    // a generic-ish interior point
    let mut p = [0.0; D];
    for (i, x) in p.iter_mut().enumerate() {
        *x = 0.25 + 0.125 * i as f64;
    }
    out.push(p);
    out
}

/// A general-position-ish deterministic point family: p_i = (i, i^2 mod m1, i^3 mod m2, ...) style moment curve,
/// small integers, exactly representable. Points on the moment curve are in general position w.r.t. orientation.
pub fn moment_points<const D: usize>(n: usize) -> Vec<[f64; D]> {
    (0..n)
        .map(|i| {
            let t = (i as i64) - (n as i64) / 2;
            let mut p = [0.0; D];
            let mut acc = 1i64;
            for x in p.iter_mut() {
                acc *= t;
                *x = acc as f64;
            }
            p
        })
        .collect()
}

pub fn mk_vertex<U: DataType, const D: usize>(c: [f64; D], id: u128, data: Option<U>) -> Vertex<f64, U, D> {
    Vertex::new_with_uuid(Point::new(c), uuid_v4_from(id), data)
}

pub fn mk_vertices<const D: usize>(pts: &[[f64; D]]) -> Vec<Vertex<f64, (), D>> {
    pts.iter().enumerate().map(|(i, c)| mk_vertex(*c, i as u128 + 1, None)).collect()
}

/// iterate over all k-subsets of 0..n (lexicographic); calls f(&[usize])
pub fn for_each_subset(n: usize, k: usize, mut f: impl FnMut(&[usize])) {
    if k > n {
        return;
    }
    let mut idx: Vec<usize> = (0..k).collect();
    loop {
        f(&idx);
        let mut i = k;
        loop {
            if i == 0 {
                return;
            }
            i -= 1;
            if idx[i] != i + n - k {
                break;
            }
            if i == 0 {
                return;
            }
        }
        idx[i] += 1;
        for j in i + 1..k {
            idx[j] = idx[j - 1] + 1;
        }
    }
}

pub fn subsets(n: usize, k: usize) -> Vec<Vec<usize>> {
    let mut out = Vec::new();
    for_each_subset(n, k, |s| out.push(s.to_vec()));
    out
}

/// all permutations of 0..n in lexicographic order, with parity (true = odd)
pub fn permutations(n: usize) -> Vec<(Vec<usize>, bool)> {
    let mut out = Vec::new();
    let mut p: Vec<usize> = (0..n).collect();
    loop {
        let mut odd = false;
        for i in 0..n {
            for j in i + 1..n {
                if p[i] > p[j] {
                    odd = !odd;
                }
            }
        }
        out.push((p.clone(), odd));
        // next permutation
        if n < 2 {
            break;
        }
        let mut i = n - 1;
        while i > 0 && p[i - 1] >= p[i] {
            i -= 1;
        }
        if i == 0 {
            break;
        }
        let mut j = n - 1;
        while p[j] <= p[i - 1] {
            j -= 1;
        }
        p.swap(i - 1, j);
        p[i..].reverse();
    }
    out
}

pub fn pt<const D: usize>(c: [f64; D]) -> Point<f64, D> {
    Point::new(c)
}

pub fn binom(n: usize, k: usize) -> u64 {
    if k > n {
        return 0;
    }
    let mut r = 1u64;
    for i in 0..k {
        r = r * (n - i) as u64 / (i + 1) as u64;
    }
    r
}
