//! Helpers at the `DelaunayTriangulation` level: snapshots, fingerprints, reference verdicts.

use crate::refval::{self, Guarantee, Lookups, Verdict};
use crate::snap::{Snap, digest};
use delaunay::core::delaunay_triangulation::DelaunayTriangulation;
use delaunay::core::traits::data_type::DataType;
use delaunay::core::triangulation::TopologyGuarantee;
use delaunay::geometry::kernel::Kernel;
use std::collections::HashMap;

pub type Dt<K, const D: usize> = DelaunayTriangulation<K, (), (), D>;

pub fn guarantee_of(g: TopologyGuarantee) -> Guarantee {
    match g {
        TopologyGuarantee::Pseudomanifold => Guarantee::Pseudomanifold,
        TopologyGuarantee::PLManifold => Guarantee::PLManifold,
        TopologyGuarantee::PLManifoldStrict => Guarantee::PLManifoldStrict,
    }
}

pub fn snap_of<K, U, V, const D: usize>(dt: &DelaunayTriangulation<K, U, V, D>) -> Snap<D>
where
    K: Kernel<D, Scalar = f64>,
    U: DataType,
    V: DataType,
{
    Snap::of(dt.tds())
}

pub fn lookups_of<K, U, V, const D: usize>(dt: &DelaunayTriangulation<K, U, V, D>, s: &Snap<D>) -> Lookups
where
    K: Kernel<D, Scalar = f64>,
    U: DataType,
    V: DataType,
{
    let mut vm = HashMap::new();
    for v in &s.verts {
        vm.insert(v.uuid, dt.tds().vertex_key_from_uuid(&v.uuid));
    }
    let mut cm = HashMap::new();
    for c in &s.cells {
        cm.insert(c.uuid, dt.tds().cell_key_from_uuid(&c.uuid));
    }
    Lookups { vertex_uuid_to_key: vm, cell_uuid_to_key: cm }
}

/// Reference L1-L3 (+ optional embedding) at the triangulation's configured guarantee.
pub fn reference_verdict<K, U, V, const D: usize>(dt: &DelaunayTriangulation<K, U, V, D>, completion: bool, with_embedding: bool) -> (Snap<D>, Verdict)
where
    K: Kernel<D, Scalar = f64>,
    U: DataType,
    V: DataType,
{
    let s = snap_of(dt);
    let lk = lookups_of(dt, &s);
    let v = refval::validate(&s, guarantee_of(dt.topology_guarantee()), completion, Some(&lk), with_embedding);
    (s, v)
}

pub fn policies_string<K, U, V, const D: usize>(dt: &DelaunayTriangulation<K, U, V, D>) -> String
where
    K: Kernel<D, Scalar = f64>,
    U: DataType,
    V: DataType,
{
    format!(
        "vp={:?};tg={:?};rp={:?};cp={:?};gt={:?}",
        dt.validation_policy(),
        dt.topology_guarantee(),
        dt.delaunay_repair_policy(),
        dt.delaunay_check_policy(),
        dt.topology_kind()
    )
}

/// Semantic fingerprint of a triangulation incl. policies (DESIGN 2.3)
pub fn fingerprint<K, U, V, const D: usize>(dt: &DelaunayTriangulation<K, U, V, D>) -> String
where
    K: Kernel<D, Scalar = f64>,
    U: DataType,
    V: DataType,
{
    format!("{}|{}", snap_of(dt).semantic(false), policies_string(dt))
}

/// Ordered dump incl. hidden state (explorer dedup key)
pub fn dump_digest<K, U, V, const D: usize>(dt: &DelaunayTriangulation<K, U, V, D>) -> u128
where
    K: Kernel<D, Scalar = f64>,
    U: DataType,
    V: DataType,
{
    let s = snap_of(dt);
    let h = dt.verif_hidden_state();
    let hs = format!(
        "{:?}|{}|{:?}",
        h.last_inserted_cell.map(crate::snap::kffi),
        h.repair_insertion_count,
        h.spatial_index.map(|(u, ks)| (u, ks.into_iter().map(crate::snap::kffi).collect::<Vec<_>>()))
    );
    digest(&format!("{}|{}|{}", s.ordered_dump(), policies_string(dt), hs))
}

/// Run `f` under catch_unwind with the panic message captured (and the default hook silenced).
pub fn guarded<T>(f: impl FnOnce() -> T) -> Result<T, String> {
    let r = std::panic::catch_unwind(std::panic::AssertUnwindSafe(f));
    r.map_err(|e| {
        if let Some(s) = e.downcast_ref::<&str>() {
            s.to_string()
        } else if let Some(s) = e.downcast_ref::<String>() {
            s.clone()
        } else {
            "panic (non-string payload)".to_string()
        }
    })
}

pub fn silence_panics() {
    std::panic::set_hook(Box::new(|_| {}));
}

/// short class name of an error for outcome histograms: the enum variant path without payload
pub fn variant_name<E: std::fmt::Debug>(e: &E) -> String {
    let s = format!("{e:?}");
    let end = s.find(|c: char| c == '(' || c == '{' || c == ' ').unwrap_or(s.len());
    s[..end].to_string()
}
