//! C10 — point location returns a cell that really contains the query point.
//! Every valid corpus state x every query point of a refined grid x every hint.

use delaunay::core::algorithms::locate::{LocateResult, locate, locate_with_stats};
use delaunay::core::triangulation_data_structure::CellKey;
use delaunay::geometry::kernel::{FastKernel, Kernel, RobustKernel};
use delaunay::geometry::point::Point;
use delaunay::geometry::traits::coordinate::Coordinate;
use rayon::prelude::*;
use serde_json::{Value, json};
use std::sync::atomic::{AtomicU64, Ordering};
use vcore::alpha::{self, subsets};
use vcore::corpus::{self, state_corpus};
use vcore::dtx::{guarded, silence_panics, snap_of};
use vcore::exact;
use vcore::model::{self, DtI, Op};
use vcore::report::{Finding, Report, Tier, machinery_fail, parse_args};
use vcore::snap::Snap;

struct Cn {
    states: AtomicU64,
    queries: AtomicU64,
    locates: AtomicU64,
    forced_scans: AtomicU64,
    inside: AtomicU64,
    outside: AtomicU64,
    on_boundary_queries: AtomicU64,
    undecidable: AtomicU64,
}

/// exact position of q w.r.t. the complex: Some(true) = in the closed union of cells, Some(false) = strictly outside
/// every cell; None = undecidable (some determinant inside the tolerance band without being exactly zero)
fn exact_where<const D: usize>(s: &Snap<D>, q: &[f64; D]) -> (Option<bool>, bool, Vec<usize>) {
    let mut containing = Vec::new();
    let mut on_boundary = false;
    let mut decidable = true;
    for ci in 0..s.n_cells() {
        let pts = s.cell_points(ci).unwrap();
        let base = exact::orient(&pts).sign;
        let mut tmp: Vec<&[f64]> = pts.clone();
        let mut min = 1;
        for i in 0..pts.len() {
            tmp[i] = q;
            let o = exact::orient(&tmp);
            if o.sign != 0 {
                // decidability: a non-zero facet determinant must be clear of the band
                let (t, e) = exact::orient_band(&tmp);
                if o.mag <= 4.0 * t + e {
                    decidable = false;
                }
            }
            min = min.min(o.sign * base);
            tmp[i] = pts[i];
        }
        if base != 0 && min >= 0 {
            containing.push(ci);
            if min == 0 {
                on_boundary = true;
            }
        }
    }
    if !decidable {
        return (None, on_boundary, containing);
    }
    (Some(!containing.is_empty()), on_boundary, containing)
}

fn queries<const D: usize>(s: &Snap<D>, fine: bool) -> Vec<[f64; D]> {
    let mut out: Vec<[f64; D]> = Vec::new();
    let (mut lo, mut hi) = ([f64::MAX; D], [f64::MIN; D]);
    for v in &s.verts {
        for i in 0..D {
            lo[i] = lo[i].min(v.c[i].round());
            hi[i] = hi[i].max(v.c[i].round());
        }
    }
    if fine {
        // half-step refinement of the bounding grid extended by one cell
        let steps: Vec<usize> = (0..D).map(|i| ((hi[i] - lo[i] + 2.0) * 2.0) as usize + 1).collect();
        let total: usize = steps.iter().product();
        if total <= 4000 {
            for mut idx in 0..total {
                let mut p = [0.0; D];
                for i in 0..D {
                    p[i] = lo[i] - 1.0 + 0.5 * (idx % steps[i]) as f64;
                    idx /= steps[i];
                }
                out.push(p);
            }
        }
    }
    // structural points: vertices, edge midpoints, cell and facet centroids, reflections of the cell centroid through each facet
    for v in &s.verts {
        out.push(v.c);
    }
    for c in &s.cells {
        let n = c.vi.len() as f64;
        let cen: [f64; D] = std::array::from_fn(|i| c.vi.iter().map(|&k| s.verts[k].c[i]).sum::<f64>() / n);
        out.push(cen);
        for omit in 0..c.vi.len() {
            let fc: [f64; D] = std::array::from_fn(|i| c.vi.iter().enumerate().filter(|(j, _)| *j != omit).map(|(_, &k)| s.verts[k].c[i]).sum::<f64>() / (n - 1.0));
            out.push(fc);
            out.push(std::array::from_fn(|i| cen[i] + 2.0 * (fc[i] - cen[i])));
        }
        for a in 0..c.vi.len() {
            for b in a + 1..c.vi.len() {
                out.push(std::array::from_fn(|i| 0.5 * (s.verts[c.vi[a]].c[i] + s.verts[c.vi[b]].c[i])));
            }
        }
    }
    out.sort_by(|a, b| a.partial_cmp(b).unwrap());
    out.dedup();
    out
}

fn check_state<K: Kernel<D, Scalar = f64>, const D: usize>(rep: &Report, cn: &Cn, kname: &str, family: &str, prov: &str, dt: &DtI<K, D>, stale: CellKey, fine: bool, max_live_hints: usize) {
    cn.states.fetch_add(1, Ordering::Relaxed);
    let s = snap_of(dt);
    let kernel = K::default();
    let mut hints: Vec<(String, Option<CellKey>)> = vec![("none".into(), None)];
    // live hints: every cell (thorough) or an evenly spread selection incl. first and last (quick)
    let nc = s.cells.len();
    let picks: Vec<usize> = if nc <= max_live_hints { (0..nc).collect() } else { (0..max_live_hints).map(|i| i * (nc - 1) / (max_live_hints - 1)).collect() };
    for i in picks {
        hints.push(("live".into(), Some(s.cells[i].key)));
    }
    hints.push(("removed".into(), Some(stale)));
    hints.push(("foreign".into(), Some(model::foreign_cell_key())));
    for q in queries(&s, fine) {
        cn.queries.fetch_add(1, Ordering::Relaxed);
        let (truth, on_boundary, containing) = exact_where(&s, &q);
        let Some(inside_truth) = truth else {
            cn.undecidable.fetch_add(1, Ordering::Relaxed);
            continue;
        };
        if on_boundary {
            cn.on_boundary_queries.fetch_add(1, Ordering::Relaxed);
        }
        let qp = Point::new(q);
        let replay = |hint: &str, extra: Value| json!({"D": D, "kernel": kname, "family": family, "state": prov, "vertices": s.verts.iter().map(|v| v.c.to_vec()).collect::<Vec<_>>(), "cells": s.cells.iter().map(|c| c.vi.clone()).collect::<Vec<_>>(), "query": q.to_vec(), "hint": hint, "detail": extra});
        let mut classes: Vec<(String, &str)> = Vec::new();
        // every hint, plus - as a deviation of the environment - the walk budget running out at step 1, 2 or 3 (guarded
        // hook `locate.step_limit`), which sends the call into the brute-force scan that real walks only reach after
        // 10000 steps or a cycle
        let mut runs: Vec<(String, Option<CellKey>, u32)> = hints.iter().map(|(n, h)| (n.clone(), *h, 0u32)).collect();
        for nth in [1u32, 3] {
            runs.push((format!("scan@{nth}"), hints.first().and_then(|(_, h)| *h), nth));
        }
        if let Some((_, h)) = hints.get(1) {
            runs.push(("scan@2+hint".to_string(), *h, 2));
        }
        for (hname, hint, force_scan_at) in &runs {
            let hname = hname.clone();
            let hname = &hname;
            cn.locates.fetch_add(1, Ordering::Relaxed);
            let run_locate = |stats: bool| {
                if *force_scan_at > 0 {
                    delaunay::verif_hooks::arm("locate.step_limit", *force_scan_at, 0);
                }
                let r = if stats { guarded(|| locate_with_stats(dt.tds(), &kernel, &qp, *hint).map(|(l, _)| l)) } else { guarded(|| locate(dt.tds(), &kernel, &qp, *hint)) };
                if *force_scan_at > 0 && delaunay::verif_hooks::disarm() {
                    cn.forced_scans.fetch_add(1, Ordering::Relaxed);
                }
                r
            };
            let r = run_locate(false);
            let r2 = run_locate(true);
            let (res, res2) = match (r, r2) {
                (Ok(a), Ok(b)) => (a, b),
                _ => {
                    rep.outcome("panic");
                    continue;
                }
            };
            match (&res, &res2) {
                (Ok(a), Ok(b)) if a == b => {}
                (Err(_), Err(_)) => {}
                _ => {
                    rep.violation(Finding { signature: json!({"check": "stats_variant_differs", "D": D, "hint": hname}), description: format!("locate returned {res:?} but locate_with_stats returned {res2:?} for {q:?}"), replay: replay(hname, json!(null)) });
                    continue;
                }
            }
            let cell_claim: Option<CellKey> = match &res {
                Ok(LocateResult::InsideCell(c)) | Ok(LocateResult::OnFacet(c, _)) | Ok(LocateResult::OnEdge(c)) => Some(*c),
                _ => None,
            };
            let class = match &res {
                Ok(LocateResult::Outside) => "Outside",
                Ok(LocateResult::OnVertex(_)) => "OnVertex",
                Ok(_) => "Inside",
                Err(_) => "Err",
            };
            rep.outcome(&format!("{hname}:{class}"));
            classes.push((hname.clone(), class));
            match class {
                "Inside" => {
                    cn.inside.fetch_add(1, Ordering::Relaxed);
                    let ci = cell_claim.and_then(|c| s.cidx.get(&c).copied());
                    let ok = ci.is_some_and(|ci| containing.contains(&ci));
                    if !ok {
                        rep.violation(Finding {
                            signature: json!({"check": "returned_cell_does_not_contain_point", "D": D, "hint": hname, "truth": if inside_truth { "inside" } else { "outside" }, "on_boundary": on_boundary}),
                            description: format!("locate({q:?}, hint={hname}) returned {res:?} but the point is not in that cell's closed simplex (exact); truth: {}", if inside_truth { "inside the triangulation" } else { "strictly outside the hull" }),
                            replay: replay(hname, json!(null)),
                        });
                    }
                }
                "Outside" => {
                    cn.outside.fetch_add(1, Ordering::Relaxed);
                    if inside_truth {
                        rep.violation(Finding {
                            signature: json!({"check": "outside_but_inside", "D": D, "hint": hname, "on_boundary": on_boundary}),
                            description: format!("locate({q:?}, hint={hname}) returned Outside but the point lies in the closed simplex of cell(s) {containing:?} (exact)"),
                            replay: replay(hname, json!(null)),
                        });
                    }
                }
                "OnVertex" => {
                    if !s.verts.iter().any(|v| v.c == q) {
                        rep.violation(Finding { signature: json!({"check": "on_vertex_wrong", "D": D}), description: format!("locate({q:?}) returned {res:?} but no vertex has these coordinates"), replay: replay(hname, json!(null)) });
                    }
                }
                _ => {
                    rep.violation(Finding { signature: json!({"check": "locate_error", "D": D, "hint": hname, "err": format!("{res:?}").chars().take(60).collect::<String>()}), description: format!("locate({q:?}, hint={hname}) returned {res:?} on a valid triangulation with an exactly decidable query"), replay: replay(hname, json!(null)) });
                }
            }
        }
        // the answer class does not depend on the hint
        // (three classes: a containing cell is returned / OnVertex, which names no cell / Outside)
        let distinct: std::collections::BTreeSet<&str> = classes.iter().filter(|(_, c)| *c != "Err").map(|(_, c)| *c).collect();
        if distinct.len() > 1 {
            rep.violation(Finding { signature: json!({"check": "hint_dependent_class", "D": D, "classes": distinct.iter().collect::<Vec<_>>()}), description: format!("locate({q:?}) gives answers of different classes depending on the hint: {classes:?}"), replay: replay("*", json!(null)) });
        }
    }
}

fn run_set<K: Kernel<D, Scalar = f64>, const D: usize>(rep: &Report, cn: &Cn, kname: &str, family: &str, pts: &[[f64; D]], cap: usize, fine: bool, mlh: usize) {
    let corpus = state_corpus::<K, D>(pts, cap);
    // a cell key that existed and was removed: take a key from a clone after a flip / removal
    let stale = corpus
        .first()
        .map(|(_, d)| {
            let mut c = d.clone();
            let k = c.cells().next().map(|(k, _)| k);
            let _ = model::apply(&mut c, &Op::Remove { v: 0 }, &[]);
            k.filter(|k| !c.tds().contains_cell(*k)).unwrap_or_else(model::foreign_cell_key)
        })
        .unwrap_or_else(model::foreign_cell_key);
    for (prov, dt) in &corpus {
        check_state(rep, cn, kname, family, prov, dt, stale, fine, mlh);
    }
    if pts.len() == D + 2 {
        rep.sample(json!({"D": D, "kernel": kname, "family": family, "points": pts.iter().map(|p| p.to_vec()).collect::<Vec<_>>(), "valid_states": corpus.len()}), 6);
    }
}

fn run_family<const D: usize>(rep: &Report, cn: &Cn, family: &str, alphabet: &[[f64; D]], sizes: std::ops::RangeInclusive<usize>, cap: usize, fine: bool, bounds: &mut Vec<Value>) {
    let mlh = if std::env::args().any(|a| a == "thorough") { usize::MAX } else { 3 };
    let mut sets: Vec<Vec<[f64; D]>> = Vec::new();
    for k in sizes.clone() {
        for s in subsets(alphabet.len(), k) {
            sets.push(s.iter().map(|&i| alphabet[i]).collect());
        }
    }
    sets.par_iter().for_each(|pts| {
        run_set::<FastKernel<f64>, D>(rep, cn, "fast", family, pts, cap, fine, mlh);
        run_set::<RobustKernel<f64>, D>(rep, cn, "robust", family, pts, cap, fine, mlh);
    });
    bounds.push(json!({"D": D, "family": family, "alphabet": alphabet.len(), "subset_sizes": format!("{sizes:?}"), "point_sets": sets.len(), "kernels": 2, "closure_cap": cap, "half_step_grid": fine, "live_hints_per_state": if mlh == usize::MAX { "all".to_string() } else { mlh.to_string() }}));
}

fn main() {
    let args = parse_args();
    if let Some(p) = &args.replay {
        std::process::exit(vcore::replay::generic(p));
    }
    silence_panics();
    let rep = Report::new("C10", &args);
    vcore::exact::self_check();
    let thorough = args.tier == Tier::Thorough;
    let x = usize::from(thorough);
    let cn = Cn { states: AtomicU64::new(0), queries: AtomicU64::new(0), locates: AtomicU64::new(0), forced_scans: AtomicU64::new(0), inside: AtomicU64::new(0), outside: AtomicU64::new(0), on_boundary_queries: AtomicU64::new(0), undecidable: AtomicU64::new(0) };
    let mut bounds = Vec::new();
    let cap = if thorough { 200 } else { 12 };
    run_family::<2>(&rep, &cn, "G2(3) subsets", &alpha::grid::<2>(3), 4..=5 + 2 * x, if thorough { cap } else { 8 }, true, &mut bounds);
    run_family::<2>(&rep, &cn, "G2(4) subsets", &alpha::grid::<2>(4), 6 + x..=6 + x, 2, true, &mut bounds);
    let mut c3 = alpha::grid::<3>(2);
    c3.push([0.5; 3]);
    run_family::<3>(&rep, &cn, "cube3+centre subsets", &c3, 5 - x..=5 + 2 * x, if thorough { cap } else { 6 }, true, &mut bounds);
    run_family::<4>(&rep, &cn, "cube alphabet subsets", &alpha::cube_alphabet::<4>(), 6..=6 + x, 3, false, &mut bounds);
    run_family::<5>(&rep, &cn, "cube alphabet subsets", &alpha::cube_alphabet::<5>(), 6 + 1 - x..=7, 2, false, &mut bounds);
    run_family::<2>(&rep, &cn, "moment curve", &alpha::moment_points::<2>(8), 7..=7 + x, 6, false, &mut bounds);
    run_family::<3>(&rep, &cn, "moment curve", &alpha::moment_points::<3>(7), 7 - x..=7, 6, false, &mut bounds);
    let _ = corpus::general_position::<2>;
    let (ins, outs) = (cn.inside.load(Ordering::Relaxed), cn.outside.load(Ordering::Relaxed));
    if ins < 10_000 || outs < 10_000 {
        machinery_fail(&format!("C10 vacuous: {ins} inside answers, {outs} outside answers"));
    }
    let cov = json!({
        "states": cn.states.load(Ordering::Relaxed),
        "transitions": cn.locates.load(Ordering::Relaxed),
        "traces_validated_against_impl": cn.locates.load(Ordering::Relaxed),
        "queries": cn.queries.load(Ordering::Relaxed),
        "locate_calls": cn.locates.load(Ordering::Relaxed),
        "calls_in_which_the_forced_step_limit_fired": cn.forced_scans.load(Ordering::Relaxed),
        "inside_answers": ins,
        "outside_answers": outs,
        "queries_on_faces_or_hull": cn.on_boundary_queries.load(Ordering::Relaxed),
        "undecidable_queries_skipped": cn.undecidable.load(Ordering::Relaxed),
        "exhaustive": true,
        "rule": "every valid corpus state (constructed, every valid flip-closure state up to the cap, incremental build, after each removal) of every subset of the alphabets x every point of the half-step refinement of the bounding grid extended by one cell (D<=3) plus vertices, edge midpoints, cell/facet centroids and outward reflections x every hint (none, each live cell, a removed key, a foreign key) through locate and locate_with_stats; judged by exact point-in-closed-simplex tests",
        "bounds": bounds,
    });
    let code = rep.finish("model_checking", cov, vec!["exact oracle self-check passed".into(), "a query is decidable when every facet determinant is exactly zero or clear of the tolerance band".into()], args.part.as_deref());
    std::process::exit(code);
}
