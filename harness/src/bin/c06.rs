//! C06 — vertex removal yields a valid triangulation minus that vertex, or no change.
//! Every vertex of every constructed state removed (repair on / off), plus insert/remove histories.

use delaunay::core::triangulation::TopologyGuarantee;
use delaunay::geometry::kernel::{FastKernel, Kernel, RobustKernel};
use rayon::prelude::*;
use serde_json::{Value, json};
use std::sync::atomic::{AtomicU64, Ordering};
use vcore::alpha::{self, subsets};
use vcore::corpus;
use vcore::dtx::{dump_digest, fingerprint, reference_verdict, silence_panics, snap_of};
use vcore::explore::{Caps, Model, Stats, bfs};
use vcore::model::{self, DtI, Op, Outcome};
use vcore::refval;
use vcore::report::{Finding, Report, Tier, machinery_fail, parse_args};

struct Cn {
    removals: AtomicU64,
    ok: AtomicU64,
    ok_nontrivial: AtomicU64,
    err: AtomicU64,
}

/// Apply Remove{v} to a clone of `dt` and judge the result. Returns the successor on Ok.
#[allow(clippy::too_many_arguments)]
fn remove_and_check<K: Kernel<D, Scalar = f64>, const D: usize>(rep: &Report, cn: &Cn, kname: &str, family: &str, dt: &DtI<K, D>, v: usize, replay: &dyn Fn() -> Value) -> Option<DtI<K, D>> {
    let before = snap_of(dt);
    let victim = before.verts[v].clone();
    let mut d = dt.clone();
    cn.removals.fetch_add(1, Ordering::Relaxed);
    let out = model::apply(&mut d, &Op::Remove { v }, &[]);
    rep.outcome(&format!("Remove:{}", out.class()));
    let policy = format!("{:?}", dt.delaunay_repair_policy());
    let repair_on = policy != "Never";
    let every_n = policy.starts_with("EveryN");
    // Under EveryN(n) an earlier insertion may legitimately have left a violation that a removal elsewhere does not
    // touch: the Delaunay level is demanded of the result only when the state before the removal was Delaunay.
    let judge_delaunay = repair_on && (!every_n || refval::delaunay_violations(&before, true).is_empty());
    // is the victim on the boundary of the complex (a hull vertex)?
    let on_hull = {
        let fm = refval::facet_map(&before);
        fm.iter().any(|(f, inc)| inc.len() == 1 && f.contains(&victim.key))
    };
    let _ = family;
    let sig = |check: &str, extra: Value| json!({"check": check, "D": D, "victim": if on_hull { "hull" } else { "interior" }, "repair": if every_n { json!("EveryN") } else { json!(repair_on) }, "detail": extra});
    match out {
        Outcome::Ok { .. } => {
            cn.ok.fetch_add(1, Ordering::Relaxed);
            let (after, verdict) = reference_verdict(&d, false, false);
            if after.n_cells() > 1 {
                cn.ok_nontrivial.fetch_add(1, Ordering::Relaxed);
            }
            // the vertex is gone, every other vertex keeps uuid, bits, data
            let key = |x: &vcore::snap::VSnap<D>| format!("{}:{:?}:{}", x.uuid, x.c.map(f64::to_bits), x.data);
            let mut want: Vec<String> = before.verts.iter().filter(|x| x.uuid != victim.uuid).map(key).collect();
            let mut got: Vec<String> = after.verts.iter().map(key).collect();
            want.sort();
            got.sort();
            if want != got {
                rep.violation(Finding { signature: sig("vertex_accounting", json!(null)), description: format!("remove_vertex returned Ok but the remaining vertices are not exactly the others ({} before, {} after, victim {:?})", before.n_vertices(), after.n_vertices(), victim.c), replay: replay() });
                return None;
            }
            // bootstrap state or valid
            if after.n_cells() == 0 {
                if after.n_vertices() > D {
                    rep.violation(Finding { signature: sig("vertices_without_cells", json!(null)), description: format!("after removal: {} vertices but no cells", after.n_vertices()), replay: replay() });
                    return None;
                }
            } else if let Some(first) = verdict.first() {
                let level = first.split(':').next().unwrap_or("?").to_string();
                let class: String = vcore::report::msg_class(first.splitn(2, ':').nth(1).unwrap_or(""));
                rep.violation(Finding { signature: sig("reference_validity", json!({"level": level, "class": class})), description: format!("remove_vertex({:?}) returned Ok but the result fails the independent reference: {first}", victim.c), replay: replay() });
                return None;
            }
            if judge_delaunay && after.n_cells() > 0 {
                if let Some(&(ci, vi)) = refval::delaunay_violations(&after, true).first() {
                    rep.violation(Finding {
                        signature: sig("empty_circumsphere", json!({"mechanism": refval::violation_mechanism(&after)})),
                        description: format!("remove_vertex({:?}) with automatic repair returned Ok but vertex {:?} is strictly inside the circumsphere of cell {:?}", victim.c, after.verts[vi].c, after.cell_points(ci)),
                        replay: replay(),
                    });
                    return None;
                }
            }
            let _ = kname;
            Some(d)
        }
        Outcome::Err { .. } | Outcome::Skipped { .. } => {
            cn.err.fetch_add(1, Ordering::Relaxed);
            if fingerprint(&d) != fingerprint(dt) {
                rep.violation(Finding { signature: sig("err_changed_state", json!(null)), description: format!("remove_vertex({:?}) returned Err but changed the triangulation", victim.c), replay: replay() });
            }
            None
        }
        Outcome::Panic { .. } => None,
    }
}

fn unknown_check<K: Kernel<D, Scalar = f64>, const D: usize>(rep: &Report, dt: &DtI<K, D>, replay: &dyn Fn() -> Value) {
    let mut d = dt.clone();
    let out = model::apply(&mut d, &Op::RemoveUnknown, &[]);
    let ok = matches!(&out, Outcome::Ok { detail, .. } if detail == "0") && fingerprint(&d) == fingerprint(dt);
    if !ok {
        rep.violation(Finding { signature: json!({"check": "remove_unknown", "D": D}), description: format!("removing an unknown vertex returned {out:?} or changed the triangulation"), replay: replay() });
    }
}

fn run_set<K: Kernel<D, Scalar = f64>, const D: usize>(rep: &Report, cn: &Cn, kname: &str, family: &str, pts: &[[f64; D]], guarantees: &[TopologyGuarantee]) {
    for &g in guarantees {
        let Some(seed) = corpus::build::<K, D>(pts, g) else { continue };
        for rp in [0u8, 1, 2] {
            let mut dt = seed.clone();
            model::apply(&mut dt, &Op::SetRP(rp), &[]);
            let rj = |v: usize| json!({"D": D, "kernel": kname, "family": family, "points": pts.iter().map(|p| p.to_vec()).collect::<Vec<_>>(), "guarantee": format!("{g:?}"), "repair_policy": rp, "remove": [v]});
            unknown_check(rep, &dt, &|| rj(usize::MAX));
            for v in 0..dt.number_of_vertices() {
                if let Some(next) = remove_and_check(rep, cn, kname, family, &dt, v, &|| rj(v)) {
                    // repeated removal: every vertex of the successor as well (depth 2)
                    if pts.len() <= D + 3 {
                        for w in 0..next.number_of_vertices() {
                            remove_and_check(rep, cn, kname, family, &next, w, &|| json!({"D": D, "kernel": kname, "family": family, "points": pts.iter().map(|p| p.to_vec()).collect::<Vec<_>>(), "guarantee": format!("{g:?}"), "repair_policy": rp, "remove": [v, w]}));
                        }
                    }
                }
            }
        }
    }
    if pts.len() == D + 2 {
        rep.sample(json!({"D": D, "kernel": kname, "family": family, "points": pts.iter().map(|p| p.to_vec()).collect::<Vec<_>>()}), 6);
    }
}

fn run_family<const D: usize>(rep: &Report, cn: &Cn, family: &str, alphabet: &[[f64; D]], sizes: std::ops::RangeInclusive<usize>, guarantees: &[TopologyGuarantee], bounds: &mut Vec<Value>) {
    let mut sets: Vec<Vec<[f64; D]>> = Vec::new();
    for k in sizes.clone() {
        for s in subsets(alphabet.len(), k) {
            sets.push(s.iter().map(|&i| alphabet[i]).collect());
        }
    }
    sets.par_iter().for_each(|pts| {
        run_set::<FastKernel<f64>, D>(rep, cn, "fast", family, pts, guarantees);
        run_set::<RobustKernel<f64>, D>(rep, cn, "robust", family, pts, guarantees);
    });
    bounds.push(json!({"D": D, "family": family, "alphabet": alphabet.len(), "subset_sizes": format!("{sizes:?}"), "point_sets": sets.len(), "kernels": 2, "guarantees": guarantees.len(), "repair": ["EveryInsertion", "Never", "EveryN(2)"]}));
}

// ---- histories: insert / remove interleavings ----
struct St<K: Kernel<D, Scalar = f64>, const D: usize> {
    dt: DtI<K, D>,
}
struct M<'a, K, const D: usize> {
    rep: &'a Report,
    cn: &'a Cn,
    kname: &'static str,
    label: String,
    alphabet: Vec<[f64; D]>,
    _k: std::marker::PhantomData<K>,
}
impl<'a, K: Kernel<D, Scalar = f64> + Sync + Send, const D: usize> Model for M<'a, K, D>
where
    DtI<K, D>: Send + Sync,
{
    type State = St<K, D>;
    type Op = Op;
    fn key(&self, s: &St<K, D>) -> u128 {
        dump_digest(&s.dt)
    }
    fn ops(&self, s: &St<K, D>, hist: &[Op]) -> Vec<Op> {
        let depth = hist.len() as u32;
        let mut v: Vec<Op> = (0..self.alphabet.len()).map(|p| Op::Insert { p, uid: depth * 64 + p as u32, stats: false }).collect();
        v.extend((0..s.dt.number_of_vertices()).map(|i| Op::Remove { v: i }));
        v
    }
    fn step(&self, s: &St<K, D>, op: &Op, hist: &[Op]) -> Option<St<K, D>> {
        let rj = || json!({"D": D, "kernel": self.kname, "family": self.label, "alphabet": self.alphabet.iter().map(|p| p.to_vec()).collect::<Vec<_>>(), "history": hist, "op": op});
        match op {
            Op::Remove { v } => remove_and_check(self.rep, self.cn, self.kname, &self.label, &s.dt, *v, &rj).map(|dt| St { dt }),
            _ => {
                let mut dt = s.dt.clone();
                match model::apply(&mut dt, op, &self.alphabet) {
                    Outcome::Ok { .. } => Some(St { dt }),
                    _ => None,
                }
            }
        }
    }
}

fn histories<K, const D: usize>(rep: &Report, cn: &Cn, kname: &'static str, label: &str, alphabet: Vec<[f64; D]>, seed: &[[f64; D]], depth: usize, total: &mut Stats, bounds: &mut Vec<Value>)
where
    K: Kernel<D, Scalar = f64> + Sync + Send,
    DtI<K, D>: Send + Sync,
{
    let Some(base) = corpus::build::<K, D>(seed, TopologyGuarantee::PLManifold) else { return };
    let m = M::<K, D> { rep, cn, kname, label: label.to_string(), alphabet, _k: std::marker::PhantomData };
    let mut seeds = Vec::new();
    for rp in [0u8, 1, 2] {
        let mut dt = base.clone();
        model::apply(&mut dt, &Op::SetRP(rp), &[]);
        seeds.push((St { dt }, vec![Op::SetRP(rp)]));
    }
    let st = bfs(&m, seeds, depth, &Caps { max_states_per_level: 1_000_000, wall_s: 0.0 });
    bounds.push(json!({"D": D, "kernel": kname, "family": label, "depth": st.depth_completed, "states": st.states, "transitions": st.transitions, "levels": st.level_sizes}));
    total.states += st.states;
    total.transitions += st.transitions;
}

fn main() {
    let args = parse_args();
    if let Some(p) = &args.replay {
        std::process::exit(vcore::replay::generic(p));
    }
    silence_panics();
    let rep = Report::new("C06", &args);
    vcore::exact::self_check();
    let thorough = args.tier == Tier::Thorough;
    let x = usize::from(thorough);
    let cn = Cn { removals: AtomicU64::new(0), ok: AtomicU64::new(0), ok_nontrivial: AtomicU64::new(0), err: AtomicU64::new(0) };
    let mut bounds = Vec::new();
    let pl = [TopologyGuarantee::PLManifold];
    let all_g = [TopologyGuarantee::PLManifold, TopologyGuarantee::Pseudomanifold, TopologyGuarantee::PLManifoldStrict];
    run_family::<2>(&rep, &cn, "G2(3) subsets", &alpha::grid::<2>(3), 3..=9, &all_g, &mut bounds);
    run_family::<2>(&rep, &cn, "G2(4) subsets", &alpha::grid::<2>(4), 4..=6 + x, &pl, &mut bounds);
    let mut c3 = alpha::grid::<3>(2);
    c3.push([0.5; 3]);
    run_family::<3>(&rep, &cn, "cube3+centre subsets", &c3, 4..=9, if thorough { &all_g } else { &pl }, &mut bounds);
    if thorough {
        run_family::<3>(&rep, &cn, "G3(3) subsets", &alpha::grid::<3>(3), 5..=6, &pl, &mut bounds);
    }
    run_family::<4>(&rep, &cn, "cube alphabet subsets", &alpha::cube_alphabet::<4>(), 5..=7 + x, &pl, &mut bounds);
    run_family::<5>(&rep, &cn, "cube alphabet subsets", &alpha::cube_alphabet::<5>(), 6..=8, &pl, &mut bounds);
    run_family::<2>(&rep, &cn, "moment curve", &alpha::moment_points::<2>(9), 4..=7, &pl, &mut bounds);
    run_family::<3>(&rep, &cn, "moment curve", &alpha::moment_points::<3>(8), 5..=7, &pl, &mut bounds);
    let mut total = Stats::default();
    let g3 = alpha::grid::<2>(3);
    histories::<FastKernel<f64>, 2>(&rep, &cn, "fast", "histories G2(3)", g3.clone(), &[[0.0, 0.0], [2.0, 0.0], [0.0, 2.0], [2.0, 2.0], [1.0, 1.0]], 3 + x, &mut total, &mut bounds);
    histories::<RobustKernel<f64>, 2>(&rep, &cn, "robust", "histories G2(3)", g3, &[[0.0, 0.0], [2.0, 0.0], [0.0, 2.0], [2.0, 2.0], [1.0, 1.0]], 3 + x, &mut total, &mut bounds);
    histories::<FastKernel<f64>, 3>(&rep, &cn, "fast", "histories cube3+centre", c3.clone(), &[[0.0, 0.0, 0.0], [1.0, 0.0, 0.0], [0.0, 1.0, 0.0], [0.0, 0.0, 1.0], [1.0, 1.0, 1.0], [0.5, 0.5, 0.5]], 3, &mut total, &mut bounds);
    let nt = cn.ok_nontrivial.load(Ordering::Relaxed);
    if nt < 1000 {
        machinery_fail(&format!("C06 vacuous: {nt} successful non-trivial removals"));
    }
    let cov = json!({
        "states": total.states + cn.removals.load(Ordering::Relaxed),
        "transitions": total.transitions + cn.removals.load(Ordering::Relaxed),
        "traces_validated_against_impl": cn.removals.load(Ordering::Relaxed),
        "removals": cn.removals.load(Ordering::Relaxed),
        "removals_ok": cn.ok.load(Ordering::Relaxed),
        "removals_ok_with_cells_left": nt,
        "removals_err": cn.err.load(Ordering::Relaxed),
        "exhaustive": true,
        "rule": "every vertex (interior, hull, degree-(D+1) star, one of the last D+2) of the batch-constructed triangulation of every subset of the per-dimension alphabets is removed, with the repair policy EveryInsertion, Never and EveryN(2) (insertion counter of either parity), and (small sets) every vertex of every successor again; plus BFS insert/remove histories from seeds; Ok results judged by the independent reference and the exact oracle, unknown vertex => Ok(0) and unchanged",
        "bounds": bounds,
    });
    let code = rep.finish("model_checking", cov, vec!["exact oracle self-check passed".into()], args.part.as_deref());
    std::process::exit(code);
}
