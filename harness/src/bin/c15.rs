//! C15 — topology and adjacency queries agree with the stored complex.
//! Every query API x every key (incl. missing) on every valid corpus state vs brute-force face enumeration.

use delaunay::core::traits::boundary_analysis::BoundaryAnalysis;
use delaunay::core::triangulation_data_structure::{CellKey, VertexKey};
use delaunay::geometry::kernel::{FastKernel, Kernel, RobustKernel};
use delaunay::topology::characteristics::euler::{TopologyClassification, classify_triangulation, count_boundary_simplices, count_simplices, euler_characteristic};
use rayon::prelude::*;
use serde_json::{Value, json};
use std::collections::{BTreeMap, BTreeSet};
use std::sync::atomic::{AtomicU64, Ordering};
use vcore::alpha::{self, subsets};
use vcore::corpus::state_corpus;
use vcore::dtx::{guarded, silence_panics, snap_of};
use vcore::model::{self, DtI, Op, Outcome};
use vcore::refval;
use vcore::report::{Finding, Report, Tier, machinery_fail, parse_args};

struct Cn {
    states: AtomicU64,
    comparisons: AtomicU64,
}

type VSet = BTreeSet<VertexKey>;

fn check_state<K: Kernel<D, Scalar = f64>, const D: usize>(rep: &Report, cn: &Cn, kname: &str, family: &str, prov: &str, dt: &DtI<K, D>) {
    cn.states.fetch_add(1, Ordering::Relaxed);
    let s = snap_of(dt);
    let tri = dt.as_triangulation();
    let replay = |api: &str| json!({"D": D, "kernel": kname, "family": family, "state": prov, "vertices": s.verts.iter().map(|v| v.c.to_vec()).collect::<Vec<_>>(), "cells": s.cells.iter().map(|c| c.vi.clone()).collect::<Vec<_>>(), "api": api});
    let bad = |api: &str, what: String| {
        rep.violation(Finding { signature: json!({"check": "query_mismatch", "api": api, "D": D}), description: format!("{api}: {what}"), replay: replay(api) });
    };
    let cmp = |api: &str, ok: bool, what: String| {
        cn.comparisons.fetch_add(1, Ordering::Relaxed);
        if !ok {
            bad(api, what);
        }
    };
    // ---------- brute force from raw cells ----------
    let cells: Vec<Vec<VertexKey>> = s.cells.iter().map(|c| c.v.clone()).collect();
    let mut ref_edges: BTreeSet<(VertexKey, VertexKey)> = BTreeSet::new();
    let mut v_cells: BTreeMap<VertexKey, BTreeSet<CellKey>> = BTreeMap::new();
    let mut v_edges: BTreeMap<VertexKey, BTreeSet<(VertexKey, VertexKey)>> = BTreeMap::new();
    for (ci, c) in cells.iter().enumerate() {
        for (i, &a) in c.iter().enumerate() {
            v_cells.entry(a).or_default().insert(s.cells[ci].key);
            for &b in &c[i + 1..] {
                let e = if a < b { (a, b) } else { (b, a) };
                ref_edges.insert(e);
                v_edges.entry(a).or_default().insert(e);
                v_edges.entry(b).or_default().insert(e);
            }
        }
    }
    let fm = refval::facet_map(&s);
    let ref_facets_total: usize = fm.values().map(|v| v.len()).sum();
    let ref_boundary: BTreeSet<VSet> = fm.iter().filter(|(_, inc)| inc.len() == 1).map(|(f, _)| f.iter().copied().collect()).collect();
    let mut ref_nbrs: BTreeMap<CellKey, BTreeSet<CellKey>> = BTreeMap::new();
    for inc in fm.values() {
        if inc.len() == 2 {
            let (a, b) = (s.cells[inc[0].0].key, s.cells[inc[1].0].key);
            ref_nbrs.entry(a).or_default().insert(b);
            ref_nbrs.entry(b).or_default().insert(a);
        }
    }
    let ekey = |e: delaunay::core::edge::EdgeKey| {
        let (a, b) = e.endpoints();
        if a < b { (a, b) } else { (b, a) }
    };
    // ---------- non-indexed ----------
    // EdgeKey identity: every API must hand out the canonical key (== EdgeKey::new of its endpoints), so that keys
    // obtained from different APIs compare equal and hash alike
    {
        use delaunay::core::edge::EdgeKey;
        let raw: Vec<EdgeKey> = dt.edges().collect();
        let canon = |e: &EdgeKey| *e == EdgeKey::new(e.v0(), e.v1()) && *e == EdgeKey::new(e.v1(), e.v0());
        cmp("edges(canonical keys)", raw.iter().all(canon), format!("{:?}", raw.iter().find(|e| !canon(e))));
        let raw_set: std::collections::HashSet<EdgeKey> = raw.iter().copied().collect();
        for (v, _) in dt.vertices() {
            let inc: Vec<EdgeKey> = dt.incident_edges(v).collect();
            cmp("incident_edges(canonical keys)", inc.iter().all(canon) && inc.iter().all(|e| raw_set.contains(e)), format!("vertex {v:?}"));
        }
        if let Ok(ix) = dt.build_adjacency_index() {
            let ixs: std::collections::HashSet<EdgeKey> = dt.edges_with_index(&ix).collect();
            cmp("edges_with_index == edges (as keys)", ixs == raw_set, format!("{} vs {}", ixs.len(), raw_set.len()));
            let ixs2: std::collections::HashSet<EdgeKey> = ix.edges().collect();
            cmp("AdjacencyIndex::edges == edges (as keys)", ixs2 == raw_set, String::new());
        }
    }
    let edges: Vec<(VertexKey, VertexKey)> = dt.edges().map(ekey).collect();
    let eset: BTreeSet<_> = edges.iter().copied().collect();
    cmp("edges", eset == ref_edges && edges.len() == eset.len(), format!("{} edges ({} distinct) vs {} by enumeration", edges.len(), eset.len(), ref_edges.len()));
    cmp("number_of_edges", tri.number_of_edges() == ref_edges.len(), format!("{} vs {}", tri.number_of_edges(), ref_edges.len()));
    let index = match dt.build_adjacency_index() {
        Ok(i) => Some(i),
        Err(e) => {
            bad("build_adjacency_index", format!("failed on a valid triangulation: {e}"));
            None
        }
    };
    if let Some(ix) = &index {
        let e2: BTreeSet<_> = dt.edges_with_index(ix).map(ekey).collect();
        cmp("edges_with_index", e2 == ref_edges, format!("{} vs {}", e2.len(), ref_edges.len()));
        cmp("number_of_edges_with_index", tri.number_of_edges_with_index(ix) == ref_edges.len(), String::new());
        cmp("AdjacencyIndex::number_of_edges", ix.number_of_edges() == ref_edges.len(), String::new());
        let e3: BTreeSet<_> = ix.edges().map(ekey).collect();
        cmp("AdjacencyIndex::edges", e3 == ref_edges, String::new());
    }
    let missing_v = model::foreign_vertex_key();
    let missing_c = model::foreign_cell_key();
    let mut vkeys: Vec<VertexKey> = s.verts.iter().map(|v| v.key).collect();
    vkeys.push(missing_v);
    for &v in &vkeys {
        let want_e = v_edges.get(&v).cloned().unwrap_or_default();
        let want_c = v_cells.get(&v).cloned().unwrap_or_default();
        let ie: Vec<_> = dt.incident_edges(v).map(ekey).collect();
        cmp("incident_edges", ie.iter().copied().collect::<BTreeSet<_>>() == want_e && ie.len() == want_e.len(), format!("vertex {v:?}: {} vs {}", ie.len(), want_e.len()));
        cmp("number_of_incident_edges", tri.number_of_incident_edges(v) == want_e.len(), format!("vertex {v:?}"));
        let ac: Vec<CellKey> = tri.adjacent_cells(v).collect();
        cmp("adjacent_cells", ac.iter().copied().collect::<BTreeSet<_>>() == want_c && ac.len() == want_c.len(), format!("vertex {v:?}: {} vs {}", ac.len(), want_c.len()));
        if let Some(ix) = &index {
            let ie2: BTreeSet<_> = dt.incident_edges_with_index(ix, v).map(ekey).collect();
            cmp("incident_edges_with_index", ie2 == want_e, format!("vertex {v:?}"));
            cmp("number_of_incident_edges_with_index", tri.number_of_incident_edges_with_index(ix, v) == want_e.len(), format!("vertex {v:?}"));
            let ac2: BTreeSet<CellKey> = tri.adjacent_cells_with_index(ix, v).collect();
            cmp("adjacent_cells_with_index", ac2 == want_c, format!("vertex {v:?}"));
            cmp("number_of_adjacent_cells_with_index", tri.number_of_adjacent_cells_with_index(ix, v) == want_c.len(), format!("vertex {v:?}"));
            cmp("AdjacencyIndex::adjacent_cells", ix.adjacent_cells(v).collect::<BTreeSet<_>>() == want_c, format!("vertex {v:?}"));
            cmp("AdjacencyIndex::incident_edges", ix.incident_edges(v).map(ekey).collect::<BTreeSet<_>>() == want_e, format!("vertex {v:?}"));
        }
        let vc = dt.vertex_coords(v).map(|c| c.to_vec());
        let want = s.vidx.get(&v).map(|&i| s.verts[i].c.to_vec());
        cmp("vertex_coords", vc == want, format!("vertex {v:?}"));
    }
    let mut ckeys: Vec<CellKey> = s.cells.iter().map(|c| c.key).collect();
    ckeys.push(missing_c);
    for &c in &ckeys {
        let want = ref_nbrs.get(&c).cloned().unwrap_or_default();
        let got: Vec<CellKey> = dt.cell_neighbors(c).collect();
        cmp("cell_neighbors", got.iter().copied().collect::<BTreeSet<_>>() == want && got.len() == want.len(), format!("cell {c:?}: {} vs {}", got.len(), want.len()));
        if let Some(ix) = &index {
            cmp("cell_neighbors_with_index", dt.cell_neighbors_with_index(ix, c).collect::<BTreeSet<_>>() == want, format!("cell {c:?}"));
            cmp("number_of_cell_neighbors_with_index", tri.number_of_cell_neighbors_with_index(ix, c) == want.len(), format!("cell {c:?}"));
            cmp("AdjacencyIndex::cell_neighbors", ix.cell_neighbors(c).collect::<BTreeSet<_>>() == want, format!("cell {c:?}"));
        }
        let cv = dt.cell_vertices(c).map(|v| v.to_vec());
        let want_cv = s.cidx.get(&c).map(|&i| s.cells[i].v.clone());
        cmp("cell_vertices", cv == want_cv, format!("cell {c:?}"));
    }
    // facets / boundary facets
    let facet_sets = |it: &mut dyn Iterator<Item = delaunay::core::facet::FacetView<'_, f64, i32, (), D>>| -> Option<Vec<VSet>> {
        let mut out = Vec::new();
        for f in it {
            let cell = s.cidx.get(&f.cell_key())?;
            let idx = f.facet_index() as usize;
            out.push(s.cells[*cell].v.iter().enumerate().filter(|(i, _)| *i != idx).map(|(_, k)| *k).collect());
        }
        Some(out)
    };
    let all = facet_sets(&mut dt.facets());
    cmp("facets", all.as_ref().is_some_and(|a| a.len() == ref_facets_total && a.iter().cloned().collect::<BTreeSet<_>>() == fm.keys().map(|f| f.iter().copied().collect::<VSet>()).collect::<BTreeSet<_>>()), format!("{:?} facet views vs {} (cell, facet) pairs", all.as_ref().map(|a| a.len()), ref_facets_total));
    let bf = facet_sets(&mut dt.boundary_facets());
    cmp("boundary_facets", bf.as_ref().is_some_and(|b| b.len() == ref_boundary.len() && b.iter().cloned().collect::<BTreeSet<_>>() == ref_boundary), format!("{:?} vs {}", bf.as_ref().map(|b| b.len()), ref_boundary.len()));
    cmp("number_of_boundary_facets", dt.tds().number_of_boundary_facets().ok() == Some(ref_boundary.len()), String::new());
    // simplex counts / Euler / classification
    let tops: Vec<Vec<VertexKey>> = cells.iter().map(|c| { let mut c = c.clone(); c.sort(); c }).collect();
    let f = refval::f_vector(&tops);
    match guarded(|| count_simplices(dt.tds())) {
        Ok(Ok(fv)) => {
            cmp("count_simplices", fv.by_dim == f, format!("{:?} vs {:?}", fv.by_dim, f));
            cmp("euler_characteristic", euler_characteristic(&fv) as i64 == refval::euler(&f), format!("{} vs {}", euler_characteristic(&fv), refval::euler(&f)));
            cmp("euler_is_one", refval::euler(&f) == 1, format!("Euclidean triangulation with cells has chi {}", refval::euler(&f)));
        }
        other => bad("count_simplices", format!("{other:?}")),
    }
    let btops: Vec<Vec<VertexKey>> = ref_boundary.iter().map(|b| b.iter().copied().collect()).collect();
    let bfv = refval::f_vector(&btops);
    match guarded(|| count_boundary_simplices(dt.tds())) {
        Ok(Ok(fv)) => {
            let got: Vec<usize> = fv.by_dim.iter().copied().take(bfv.len()).collect();
            cmp("count_boundary_simplices", got == bfv && fv.by_dim.iter().skip(bfv.len()).all(|&n| n == 0), format!("{:?} vs {:?}", fv.by_dim, bfv));
            let chi_b = refval::euler(&bfv);
            let want = 1 + if (D - 1) % 2 == 0 { 1 } else { -1 };
            cmp("boundary_is_closed_sphere", chi_b == want && refval::comb_invariants(&s).closed_boundary, format!("boundary chi {chi_b}, expected {want}"));
        }
        other => bad("count_boundary_simplices", format!("{other:?}")),
    }
    match guarded(|| classify_triangulation(dt.tds())) {
        Ok(Ok(cl)) => {
            let ok = if s.n_cells() == 1 { matches!(cl, TopologyClassification::SingleSimplex(d) if d == D) || matches!(cl, TopologyClassification::Ball(d) if d == D) } else { matches!(cl, TopologyClassification::Ball(d) if d == D) };
            cmp("classify_triangulation", ok, format!("{cl:?} for a Euclidean triangulation with {} cells", s.n_cells()));
        }
        other => bad("classify_triangulation", format!("{other:?}")),
    }
}

fn run_set<K: Kernel<D, Scalar = f64>, const D: usize>(rep: &Report, cn: &Cn, kname: &str, family: &str, pts: &[[f64; D]], cap: usize) {
    let mut corpus = state_corpus::<K, D>(pts, cap);
    // also states after a repair (from the farthest closure state) and after one more insertion
    if let Some((_, last)) = corpus.last().cloned() {
        let mut d = last.clone();
        if let Outcome::Ok { .. } = model::apply(&mut d, &Op::Repair, &[]) {
            corpus.push(("after_repair".into(), d));
        }
        let mut d = last;
        let c: [f64; D] = std::array::from_fn(|i| 0.31 + 0.07 * i as f64);
        if let Outcome::Ok { .. } = model::apply(&mut d, &Op::InsertAt { c: c.to_vec(), uid: 777, stats: false }, &[]) {
            corpus.push(("after_insert".into(), d));
        }
    }
    // slot reuse: remove a vertex, then insert new points (the new vertices take over vacated slots with a bumped
    // version and end up adjacent to older keys)
    if let Some((_, first)) = corpus.first().cloned() {
        for v in 0..first.number_of_vertices() {
            let mut d = first.clone();
            if !matches!(model::apply(&mut d, &Op::Remove { v }, &[]), Outcome::Ok { .. }) {
                continue;
            }
            let mut k = 0;
            for c in [[0.37; D], [0.61; D], [0.23; D]] {
                let mut q = c;
                q[0] += 0.05 * v as f64;
                let _ = model::apply(&mut d, &Op::InsertAt { c: q.to_vec(), uid: 900 + 10 * v as u32 + k, stats: false }, &[]);
                k += 1;
            }
            corpus.push((format!("remove({v})+3 inserts"), d));
        }
    }
    for (prov, dt) in &corpus {
        if vcore::corpus::is_valid_triangulation(dt) {
            check_state(rep, cn, kname, family, prov, dt);
        }
    }
    if pts.len() == D + 2 {
        rep.sample(json!({"D": D, "kernel": kname, "family": family, "points": pts.iter().map(|p| p.to_vec()).collect::<Vec<_>>(), "states": corpus.len()}), 6);
    }
}

fn run_family<const D: usize>(rep: &Report, cn: &Cn, family: &str, alphabet: &[[f64; D]], sizes: std::ops::RangeInclusive<usize>, cap: usize, bounds: &mut Vec<Value>) {
    let mut sets: Vec<Vec<[f64; D]>> = Vec::new();
    for k in sizes.clone() {
        for s in subsets(alphabet.len(), k) {
            sets.push(s.iter().map(|&i| alphabet[i]).collect());
        }
    }
    sets.par_iter().for_each(|pts| {
        run_set::<FastKernel<f64>, D>(rep, cn, "fast", family, pts, cap);
        run_set::<RobustKernel<f64>, D>(rep, cn, "robust", family, pts, cap);
    });
    bounds.push(json!({"D": D, "family": family, "alphabet": alphabet.len(), "subset_sizes": format!("{sizes:?}"), "point_sets": sets.len(), "kernels": 2, "closure_cap": cap}));
}

fn main() {
    let args = parse_args();
    if let Some(p) = &args.replay {
        std::process::exit(vcore::replay::generic(p));
    }
    silence_panics();
    let rep = Report::new("C15", &args);
    let thorough = args.tier == Tier::Thorough;
    let x = usize::from(thorough);
    let cn = Cn { states: AtomicU64::new(0), comparisons: AtomicU64::new(0) };
    let mut bounds = Vec::new();
    let cap = if thorough { 2000 } else { 60 };
    run_family::<2>(&rep, &cn, "G2(3) subsets", &alpha::grid::<2>(3), 3..=7 + x, cap, &mut bounds);
    run_family::<2>(&rep, &cn, "moment curve", &alpha::moment_points::<2>(9), 4..=7 + x, cap, &mut bounds);
    let mut c3 = alpha::grid::<3>(2);
    c3.push([0.5; 3]);
    run_family::<3>(&rep, &cn, "cube3+centre subsets", &c3, 4..=7 + x, cap, &mut bounds);
    run_family::<3>(&rep, &cn, "moment curve", &alpha::moment_points::<3>(8), 5..=7, cap, &mut bounds);
    run_family::<4>(&rep, &cn, "cube alphabet subsets", &alpha::cube_alphabet::<4>(), 5..=7, cap, &mut bounds);
    run_family::<5>(&rep, &cn, "cube alphabet subsets", &alpha::cube_alphabet::<5>(), 6..=7 + x, cap, &mut bounds);
    let st = cn.states.load(Ordering::Relaxed);
    if st < 1000 {
        machinery_fail(&format!("C15 vacuous: {st} states"));
    }
    let cov = json!({
        "states": st,
        "transitions": cn.comparisons.load(Ordering::Relaxed),
        "traces_validated_against_impl": cn.comparisons.load(Ordering::Relaxed),
        "query_comparisons": cn.comparisons.load(Ordering::Relaxed),
        "exhaustive": true,
        "rule": "every valid corpus state (constructed, valid flip-closure states, incremental, after removal, after repair, after one more insertion) x every query API (edges, number_of_edges, incident_edges, adjacent_cells, cell_neighbors, facets, boundary_facets, cell_vertices, vertex_coords, AdjacencyIndex and every *_with_index twin, count_simplices, count_boundary_simplices, euler_characteristic, classify_triangulation) x every live key plus one foreign vertex / cell key; compared with brute-force face enumeration of the raw cells",
        "bounds": bounds,
    });
    let code = rep.finish("model_checking", cov, vec!["brute-force enumeration reads cells and vertices through the public iterators only".into()], args.part.as_deref());
    std::process::exit(code);
}
