//! C16 — toroidal construction wraps points correctly and closes the surface.

use delaunay::core::builder::DelaunayTriangulationBuilder;
use delaunay::core::delaunay_triangulation::DelaunayTriangulation;
use delaunay::geometry::kernel::FastKernel;
use delaunay::topology::spaces::ToroidalSpace;
use delaunay::topology::traits::topological_space::TopologicalSpace;
use rayon::prelude::*;
use serde_json::{Value, json};
use std::collections::HashMap;
use std::sync::atomic::{AtomicU64, Ordering};
use vcore::alpha::{mk_vertex, subsets};
use vcore::dtx::{guarded, silence_panics};
use vcore::refval::{self, Guarantee};
use vcore::report::{Finding, Report, Tier, machinery_fail, parse_args};
use vcore::snap::Snap;

fn next_up(x: f64) -> f64 {
    f64::from_bits(x.to_bits() + 1)
}
fn next_down(x: f64) -> f64 {
    f64::from_bits(x.to_bits() - 1)
}

fn axis_alphabet(l: f64) -> Vec<f64> {
    // (k * l for odd k: for a period that is not a dyadic rational the rounded product lies just below or above the
    // lattice face, and the rounded quotient x / l can land on an integer the true quotient does not reach; 1e17 is
    // more than 2^53 periods away)
    vec![-2.0 * l, -next_up(l), -l, -1e-20, -0.0, 0.0, 5e-324, l / 3.0, 0.5 * l, next_down(l), l, next_up(l), 2.0 * l, 1e6 * l + 0.3 * l, -1e6 * l - 0.3 * l, 0.25 * l, 1.25 * l, -0.75 * l, 3.0 * l, 5.0 * l, 6.0 * l, 7.0 * l, 9.0 * l, -3.0 * l, -7.0 * l, 1e17, -1e17]
}

/// in-box, congruent, idempotent
fn wrap_ok(x: f64, w: f64, l: f64) -> Result<(), String> {
    if !(w >= 0.0 && w < l) {
        return Err(format!("wrapped value {w:e} is outside the half-open box [0, {l:e})"));
    }
    let r = (x - w) / l;
    let tol = 8.0 * f64::EPSILON * (1.0 + (x / l).abs());
    if (r - r.round()).abs() > tol {
        return Err(format!("{w:e} is not congruent to {x:e} modulo {l:e} ((x-w)/L = {r})"));
    }
    Ok(())
}

struct Cn {
    wraps: AtomicU64,
    builds: AtomicU64,
    builds_ok: AtomicU64,
    inserts: AtomicU64,
    inserts_ok: AtomicU64,
    periodic: AtomicU64,
    periodic_ok: AtomicU64,
}

fn check_direct<const D: usize>(rep: &Report, cn: &Cn, domain: [f64; D]) {
    let space = ToroidalSpace::<D>::new(domain);
    for axis in 0..D {
        let l = domain[axis];
        for x in axis_alphabet(l) {
            cn.wraps.fetch_add(1, Ordering::Relaxed);
            let class = coord_class(x, l);
            match space.wrap_coord(axis, x) {
                Some(w) => {
                    let idem = space.wrap_coord(axis, w).map(f64::to_bits) == Some(w.to_bits());
                    if let Err(e) = wrap_ok(x, w, l).and_then(|()| if idem { Ok(()) } else { Err(format!("wrapping {w:e} again gives {:?}", space.wrap_coord(axis, w))) }) {
                        rep.violation(Finding { signature: json!({"check": "wrap_coord", "coord_class": class}), description: format!("ToroidalSpace::wrap_coord(axis {axis}, {x:e}) with period {l:e}: {e}"), replay: json!({"D": D, "domain": domain.to_vec(), "axis": axis, "x": x}) });
                    }
                }
                None => rep.violation(Finding { signature: json!({"check": "wrap_coord_none", "coord_class": class}), description: format!("wrap_coord({x:e}) returned None for a finite coordinate and a positive finite period {l:e}"), replay: json!({"D": D, "domain": domain.to_vec(), "axis": axis, "x": x}) }),
            };
            let mut c = [0.0f64; D];
            c[axis] = x;
            let mut cs = c.to_vec();
            space.canonicalize_point(&mut cs);
            if let Err(e) = wrap_ok(x, cs[axis], l) {
                rep.violation(Finding { signature: json!({"check": "canonicalize_point", "coord_class": class}), description: format!("ToroidalSpace::canonicalize_point({x:e}) with period {l:e}: {e}"), replay: json!({"D": D, "domain": domain.to_vec(), "axis": axis, "x": x}) });
            }
        }
    }
}

fn coord_class(x: f64, l: f64) -> &'static str {
    if x == 0.0 {
        "zero"
    } else if x < 0.0 && x > -1e-10 * l {
        "tiny_negative"
    } else if x > 0.0 && x < 1e-10 * l {
        "tiny_positive"
    } else if x == l {
        "period"
    } else if (x / l).abs() > 1e5 {
        "huge_multiple"
    } else if x < 0.0 {
        "negative"
    } else if x > l {
        "above_period"
    } else {
        "inside"
    }
}

/// the C01-style oracle on a canonicalized toroidal build
fn check_built(rep: &Report, cn: &Cn, domain: [f64; 2], pts: &[[f64; 2]], follow: &[[f64; 2]]) {
    let verts: Vec<_> = pts.iter().enumerate().map(|(i, c)| mk_vertex::<i32, 2>(*c, 1 + i as u128, Some(i as i32))).collect();
    cn.builds.fetch_add(1, Ordering::Relaxed);
    let replay = |extra: Value| json!({"D": 2, "domain": domain.to_vec(), "points": pts.iter().map(|p| p.to_vec()).collect::<Vec<_>>(), "detail": extra});
    let r = guarded(|| DelaunayTriangulationBuilder::from_vertices(&verts).toroidal(domain).build_with_kernel::<FastKernel<f64>, ()>(&FastKernel::new()));
    let mut dt: DelaunayTriangulation<FastKernel<f64>, i32, (), 2> = match r {
        Err(p) => {
            rep.violation(Finding { signature: json!({"check": "panic", "mode": "toroidal"}), description: format!("toroidal build panicked: {p}"), replay: replay(json!(null)) });
            return;
        }
        Ok(Err(_)) => {
            rep.outcome("toroidal:Err");
            return;
        }
        Ok(Ok(d)) => d,
    };
    cn.builds_ok.fetch_add(1, Ordering::Relaxed);
    rep.outcome("toroidal:Ok");
    let by_uuid: HashMap<_, _> = verts.iter().enumerate().map(|(i, v)| (v.uuid(), i)).collect();
    let s = Snap::of(dt.tds());
    for v in &s.verts {
        let Some(&i) = by_uuid.get(&v.uuid) else {
            rep.violation(Finding { signature: json!({"check": "unknown_uuid", "mode": "toroidal"}), description: "result vertex is not an input vertex".into(), replay: replay(json!(null)) });
            return;
        };
        if v.data != format!("{:?}", Some(i as i32)) {
            rep.violation(Finding { signature: json!({"check": "data_lost", "mode": "toroidal"}), description: "vertex data changed".into(), replay: replay(json!(null)) });
        }
        for ax in 0..2 {
            // the stored coordinate may additionally carry the documented insertion perturbation (<= 2e-8 * scale)
            let (x, w, l) = (pts[i][ax], v.c[ax], domain[ax]);
            let strict = wrap_ok(x, w, l);
            if let Err(e) = strict {
                let r = (x - w) / l;
                let near = (r - r.round()).abs() * l <= 4e-8 * (1.0 + l) && w >= 0.0 && w < l;
                if !near {
                    rep.violation(Finding { signature: json!({"check": "vertex_not_wrapped", "coord_class": coord_class(x, l)}), description: format!("built toroidal triangulation: input coordinate {x:e} (period {l:e}) is stored as {w:e}: {e}"), replay: replay(json!({"axis": ax})) });
                    return;
                }
            }
        }
    }
    let lk = vcore::dtx::lookups_of(&dt, &s);
    let verdict = refval::validate(&s, Guarantee::PLManifold, true, Some(&lk), true);
    if let Some(first) = verdict.first() {
        rep.violation(Finding { signature: json!({"check": "reference_validity", "mode": "toroidal", "class": vcore::report::msg_class(&first)}), description: format!("toroidal (canonicalized) build returned Ok but fails the reference: {first}"), replay: replay(json!(null)) });
        return;
    }
    if !refval::delaunay_violations(&s, true).is_empty() {
        rep.violation(Finding { signature: json!({"check": "empty_circumsphere", "mode": "toroidal"}), description: "toroidal (canonicalized) build is certainly not Delaunay for the wrapped points".into(), replay: replay(json!(null)) });
        return;
    }
    // later insertions are wrapped the same way
    for (k, q) in follow.iter().enumerate() {
        cn.inserts.fetch_add(1, Ordering::Relaxed);
        let mut d2 = dt.clone();
        let v = mk_vertex::<i32, 2>(*q, 500 + k as u128, Some(-1));
        let uuid = v.uuid();
        if let Ok(Ok(_)) = guarded(|| d2.insert(v)) {
            cn.inserts_ok.fetch_add(1, Ordering::Relaxed);
            if let Some((_, stored)) = d2.vertices().find(|(_, x)| x.uuid() == uuid) {
                let c = *stored.point().coords();
                for ax in 0..2 {
                    let (x, w, l) = (q[ax], c[ax], domain[ax]);
                    let r = (x - w) / l;
                    // documented retry perturbation: +-(axis + 1) * 1e-8 * local scale, and the local scale is a cell extent,
                    // which is governed by the largest period, not by this axis' own (an allowance of 4e-8 * (1 + l) flagged
                    // a 4.2e-8 shift on an axis of period 2^-20 next to one of period 3: corrected)
                    let lmax = domain.iter().fold(0.0f64, |a, b| a.max(*b));
                    let allow = 2.0e-8 * (ax as f64 + 1.0) * (1.0 + 2.0 * lmax);
                    let in_box = w >= -allow && w < l + allow;
                    let congruent = (r - r.round()).abs() * l <= allow + 8.0 * f64::EPSILON * x.abs();
                    if !in_box || !congruent {
                        rep.violation(Finding { signature: json!({"check": "later_insertion_not_wrapped", "coord_class": coord_class(x, l)}), description: format!("insert({q:?}) into a toroidal triangulation (domain {domain:?}) stored {c:?}: coordinate {ax} is not wrapped into the fundamental box"), replay: replay(json!({"insert": q.to_vec()})) });
                        return;
                    }
                }
            }
        }
    }
    let _ = &mut dt;
}

fn check_periodic(rep: &Report, cn: &Cn, domain: [f64; 2], pts: &[[f64; 2]]) -> bool {
    let verts: Vec<_> = pts.iter().enumerate().map(|(i, c)| mk_vertex::<i32, 2>(*c, 1 + i as u128, Some(i as i32))).collect();
    cn.periodic.fetch_add(1, Ordering::Relaxed);
    let replay = || json!({"D": 2, "mode": "periodic", "domain": domain.to_vec(), "points": pts.iter().map(|p| p.to_vec()).collect::<Vec<_>>()});
    let r = guarded(|| DelaunayTriangulationBuilder::from_vertices(&verts).toroidal_periodic(domain).build_with_kernel::<FastKernel<f64>, ()>(&FastKernel::new()));
    let dt = match r {
        Err(p) => {
            rep.violation(Finding { signature: json!({"check": "panic", "mode": "periodic"}), description: format!("periodic build panicked: {p}"), replay: replay() });
            return false;
        }
        Ok(Err(_)) => {
            rep.outcome("periodic:Err");
            return false;
        }
        Ok(Ok(d)) => d,
    };
    cn.periodic_ok.fetch_add(1, Ordering::Relaxed);
    rep.outcome("periodic:Ok");
    let s = Snap::of(dt.tds());
    let mut bad: Vec<String> = Vec::new();
    let l1 = refval::level1(&s);
    if let Some(e) = l1.first() {
        bad.push(format!("L1: {e}"));
    }
    // A periodic quotient on a handful of vertices is not a simplicial complex (several cells may share a vertex
    // set), so faces cannot be identified by vertex sets. Judge it structurally through the neighbour slots:
    // closed <=> every slot is filled and reciprocated; for a closed surface E = 3F/2, so chi = V - F/2.
    let mut open_slots = 0usize;
    let mut one_way = 0usize;
    for c in &s.cells {
        match &c.nb {
            None => open_slots += c.v.len(),
            Some(nb) => {
                for n in nb {
                    match n {
                        None => open_slots += 1,
                        Some(k) => match s.cidx.get(k) {
                            None => one_way += 1,
                            Some(&j) => {
                                if !s.cells[j].nb.as_ref().is_some_and(|m| m.iter().any(|x| *x == Some(c.key))) {
                                    one_way += 1;
                                }
                            }
                        },
                    }
                }
            }
        }
    }
    if open_slots != 0 {
        bad.push(format!("{open_slots} boundary facets (empty neighbour slots) in a closed periodic triangulation"));
    }
    if one_way != 0 {
        bad.push(format!("{one_way} neighbour links are dangling or not reciprocated"));
    }
    if open_slots == 0 && s.n_cells() != 2 * s.n_vertices() {
        bad.push(format!("Euler characteristic V - F/2 = {} (V={}, F={}), expected 0 for a torus", s.n_vertices() as i64 - s.n_cells() as i64 / 2, s.n_vertices(), s.n_cells()));
    }
    let mut seen = std::collections::HashSet::new();
    for v in &s.verts {
        if !seen.insert(v.uuid) {
            bad.push("an input uuid occurs twice".into());
        }
        // every vertex lies in the half-open box and is congruent to its input. Two documented perturbations apply:
        // the periodic builder's deterministic sub-resolution offset (<= 2^-32 of the period) and the insertion
        // retry (+-(axis+1) * 1e-8 * local scale, local scale <= the 3x3 tiling's cell extent), so congruence is
        // judged to 1e-6 of the period (the first version used 1e-8 and reported a retry perturbation of 1.6e-8
        // in the thorough tier: a false alarm)
        if let Some(i) = verts.iter().position(|x| x.uuid() == v.uuid) {
            for ax in 0..2 {
                let (x, w, l) = (pts[i][ax], v.c[ax], domain[ax]);
                if !(w >= 0.0 && w < l) {
                    bad.push(format!("vertex coordinate {w:e} is outside the half-open box [0, {l:e})"));
                }
                let r = (x - w) / l;
                if (r - r.round()).abs() > 1e-6 {
                    bad.push(format!("vertex coordinate {w:e} is not congruent to its input {x:e} modulo {l:e}"));
                }
                if v.data != format!("{:?}", Some(i as i32)) {
                    bad.push("vertex data changed".into());
                }
            }
        } else {
            bad.push("result vertex is not an input vertex".into());
        }
    }
    if s.n_vertices() != pts.len() {
        bad.push(format!("{} vertices for {} inputs", s.n_vertices(), pts.len()));
    }
    if let Some(b) = bad.first() {
        rep.violation(Finding { signature: json!({"check": "periodic_result", "class": vcore::report::msg_class(b)}), description: format!("periodic (image-point) build returned Ok but: {bad:?}"), replay: replay() });
    }
    true
}

fn main() {
    let args = parse_args();
    if let Some(p) = &args.replay {
        std::process::exit(vcore::replay::generic(p));
    }
    silence_panics();
    let rep = Report::new("C16", &args);
    let thorough = args.tier == Tier::Thorough;
    let cn = Cn { wraps: AtomicU64::new(0), builds: AtomicU64::new(0), builds_ok: AtomicU64::new(0), inserts: AtomicU64::new(0), inserts_ok: AtomicU64::new(0), periodic: AtomicU64::new(0), periodic_ok: AtomicU64::new(0) };
    let periods = [1.0, 0.75, 3.0, 2f64.powi(-20), 0.3, 0.7, 1.1];
    for &a in &periods {
        check_direct::<1>(&rep, &cn, [a]);
        for &b in &periods {
            check_direct::<2>(&rep, &cn, [a, b]);
            check_direct::<3>(&rep, &cn, [a, b, 1.0]);
        }
    }
    // builds: point sets of 3..=4 (5 in thorough) points whose coordinates come from the boundary-value alphabet
    let domains: Vec<[f64; 2]> = vec![[1.0, 1.0], [0.75, 3.0], [3.0, 2f64.powi(-20)], [0.3, 1.1]];
    for domain in &domains {
        let ax: Vec<Vec<f64>> = (0..2).map(|i| axis_alphabet(domain[i])).collect();
        // pair the two axis alphabets with a shifted index so that distinct wrapped positions occur
        let n = ax[0].len();
        let cand: Vec<[f64; 2]> = (0..n).flat_map(|i| [[ax[0][i], ax[1][(i * 5 + 3) % n]], [ax[0][i], ax[1][(i * 7 + 1) % n]]]).collect();
        let follow: Vec<[f64; 2]> = (0..n).map(|i| [ax[0][i], ax[1][(i * 3 + 2) % n]]).collect();
        let mut sets: Vec<Vec<[f64; 2]>> = Vec::new();
        for k in 3..=if thorough { 5 } else { 4 } {
            for s in subsets(cand.len(), k).into_iter().step_by(if k == 3 { 1 } else if thorough { 3 } else { 23 }) {
                sets.push(s.iter().map(|&i| cand[i]).collect());
            }
        }
        sets.par_iter().for_each(|pts| check_built(&rep, &cn, *domain, pts, &follow));
    }
    // periodic mode: subsets of a 4x4 grid strictly inside the box
    for domain in [[1.0, 1.0], [0.75, 3.0]] {
        let g: Vec<[f64; 2]> = (0..16).map(|i| [(0.125 + 0.25 * (i % 4) as f64 + 0.03 * (i / 4) as f64) * domain[0], (0.125 + 0.25 * (i / 4) as f64 + 0.02 * (i % 4) as f64) * domain[1]]).collect();
        let mut sets: Vec<Vec<[f64; 2]>> = Vec::new();
        for k in 5..=7 {
            for s in subsets(16, k).into_iter().step_by(if thorough { 3 } else { 41 }) {
                sets.push(s.iter().map(|&i| g[i]).collect());
            }
        }
        sets.par_iter().for_each(|pts| {
            if check_periodic(&rep, &cn, domain, pts) {
                // the same set with one coordinate replaced by a value next to / beyond the faces of the box
                for i in 0..pts.len() {
                    for ax in 0..2 {
                        let l = domain[ax];
                        for val in [-1e-12 * l, l - 1e-12 * l, 2.0 * l - 1e-12 * l, 1e-12 * l, -1e-20, l, -l, next_down(l), 3.0 * l + 0.25 * l] {
                            let mut q = pts.clone();
                            q[i][ax] = val;
                            check_periodic(&rep, &cn, domain, &q);
                        }
                    }
                }
            }
        });
    }
    let (b, bo, io) = (cn.builds.load(Ordering::Relaxed), cn.builds_ok.load(Ordering::Relaxed), cn.inserts_ok.load(Ordering::Relaxed));
    if bo < 200 || io < 200 {
        machinery_fail(&format!("C16 vacuous: {bo}/{b} toroidal builds Ok, {io} follow-up insertions Ok"));
    }
    let cov = json!({
        "evaluations": cn.wraps.load(Ordering::Relaxed) + b + cn.inserts.load(Ordering::Relaxed) + cn.periodic.load(Ordering::Relaxed),
        "distinct_nontrivial": bo + io + cn.periodic_ok.load(Ordering::Relaxed),
        "rule": "per-axis coordinate alphabet of boundary values {-2L, -L-ulp, -L, -1e-20, -0.0, 0, 5e-324, L/3, L/2, L-ulp, L, L+ulp, 2L, +-(1e6 L + 0.3 L), L/4, 5L/4, -3L/4} for L in {1, 0.75, 3, 2^-20} and mixed period vectors through wrap_coord / canonicalize_point (D=1..3); D=2 point sets of 3..4 (5) such points through the toroidal builder, judged by in-box / congruence / idempotence, uuid+data, the C01 reference and exact Delaunay oracle on the wrapped points, and every follow-up insert of an alphabet point; periodic mode on 5..7-point subsets of a skewed 4x4 grid (closed, chi = 0, each input once); non-trivial = Ok builds and Ok follow-up insertions judged",
        "exhaustive": true,
        "wrap_evaluations": cn.wraps.load(Ordering::Relaxed),
        "toroidal_builds": b,
        "toroidal_builds_ok": bo,
        "follow_up_insertions": cn.inserts.load(Ordering::Relaxed),
        "follow_up_insertions_ok": io,
        "periodic_builds": cn.periodic.load(Ordering::Relaxed),
        "periodic_builds_ok": cn.periodic_ok.load(Ordering::Relaxed),
        "samples": [{"domain": [0.75, 3.0], "axis_alphabet_for_0.75": axis_alphabet(0.75)}],
    });
    let code = rep.finish("exploration", cov, vec!["stored coordinates may carry the documented insertion perturbation (<= 2e-8 x scale) on top of the wrap".into(), "point-set enumeration over 4- and 5-subsets is strided (stated in the rule); 3-subsets are complete".into()], args.part.as_deref());
    std::process::exit(code);
}
