//! C17 — spatial orderings are permutations and the Hilbert index is a true curve.

use delaunay::core::delaunay_triangulation::{InsertionOrderStrategy, verif_dedup_vertices, verif_order_vertices};
use delaunay::core::util::deduplication::{dedup_vertices_epsilon, dedup_vertices_exact};
use delaunay::core::util::hilbert::{hilbert_index, hilbert_indices_prequantized, hilbert_quantize};
use delaunay::core::vertex::Vertex;
use rayon::prelude::*;
use serde_json::json;
use std::sync::atomic::{AtomicU64, Ordering};
use vcore::alpha::mk_vertex;
use vcore::dtx::{guarded, silence_panics};
use vcore::exact::dist_cmp;
use vcore::report::{Finding, Report, Tier, machinery_fail, parse_args};

struct Cn {
    hilbert_cells: AtomicU64,
    lists: AtomicU64,
    orderings: AtomicU64,
    dedups: AtomicU64,
    dedups_dropping: AtomicU64,
}

fn hilbert_dim<const D: usize>(rep: &Report, cn: &Cn, max_total_bits: u32) {
    for bits in 1..=(max_total_bits / D as u32).min(31) {
        let side = 1u64 << bits;
        let total = side.pow(D as u32);
        let cells: Vec<[u32; D]> = (0..total)
            .map(|mut i| {
                std::array::from_fn(|_| {
                    let c = (i % side) as u32;
                    i /= side;
                    c
                })
            })
            .collect();
        let replay = |extra: serde_json::Value| json!({"D": D, "bits": bits, "detail": extra});
        let idx = match hilbert_indices_prequantized(&cells, bits) {
            Ok(v) => v,
            Err(e) => {
                rep.violation(Finding { signature: json!({"check": "hilbert_error", "D": D}), description: format!("hilbert_indices_prequantized failed for bits={bits}: {e:?}"), replay: replay(json!(null)) });
                continue;
            }
        };
        cn.hilbert_cells.fetch_add(total, Ordering::Relaxed);
        // bijection onto [0, 2^(bD))
        let mut inverse: Vec<u32> = vec![u32::MAX; total as usize];
        let mut ok = idx.len() == total as usize;
        for (ci, &h) in idx.iter().enumerate() {
            if h >= total as u128 || inverse[h as usize] != u32::MAX {
                ok = false;
                rep.violation(Finding { signature: json!({"check": "hilbert_not_bijective", "D": D}), description: format!("D={D} bits={bits}: index {h} of cell {:?} is out of range or repeated", cells[ci]), replay: replay(json!({"cell": cells[ci].to_vec()})) });
                break;
            }
            inverse[h as usize] = ci as u32;
        }
        if !ok {
            continue;
        }
        // consecutive indices are adjacent grid cells
        for h in 1..total as usize {
            let (a, b) = (&cells[inverse[h - 1] as usize], &cells[inverse[h] as usize]);
            let diff: u32 = (0..D).map(|i| a[i].abs_diff(b[i])).sum();
            if diff != 1 {
                rep.violation(Finding { signature: json!({"check": "hilbert_not_adjacent", "D": D}), description: format!("D={D} bits={bits}: indices {} and {h} map to non-adjacent cells {a:?} {b:?}", h - 1), replay: replay(json!({"h": h})) });
                break;
            }
        }
        // continuous entry points agree at cell centres (bounds = [0, 2^bits))
        let step = (total / 4096).max(1) as usize;
        for ci in (0..total as usize).step_by(if bits as usize * D <= 12 { 1 } else { step }) {
            let centre: [f64; D] = std::array::from_fn(|i| cells[ci][i] as f64 + 0.5);
            let q = hilbert_quantize(&centre, (0.0, side as f64), bits);
            let h = hilbert_index(&centre, (0.0, side as f64), bits);
            // the library quantises onto 2^bits - 1 intervals or 2^bits cells; accept either convention but require consistency:
            match (q, h) {
                (Ok(q), Ok(h)) => {
                    let direct = hilbert_indices_prequantized(&[q], bits).ok().and_then(|v| v.first().copied());
                    if direct != Some(h) {
                        rep.violation(Finding { signature: json!({"check": "hilbert_index_ne_quantize_then_index", "D": D}), description: format!("D={D} bits={bits}: hilbert_index({centre:?}) = {h} but quantize -> {q:?} -> {direct:?}"), replay: replay(json!({"centre": centre.to_vec()})) });
                        break;
                    }
                    if q.iter().zip(cells[ci].iter()).any(|(a, b)| a.abs_diff(*b) > 1) {
                        rep.violation(Finding { signature: json!({"check": "hilbert_quantize_far", "D": D}), description: format!("D={D} bits={bits}: centre {centre:?} quantised to {q:?}, more than one cell away from {:?}", cells[ci]), replay: replay(json!(null)) });
                        break;
                    }
                }
                other => {
                    rep.violation(Finding { signature: json!({"check": "hilbert_error", "D": D}), description: format!("D={D} bits={bits}: {other:?} for in-range centre {centre:?}"), replay: replay(json!(null)) });
                    break;
                }
            }
        }
    }
}

type V<const D: usize> = Vertex<f64, i32, D>;

fn ident<const D: usize>(v: &V<D>) -> (uuid::Uuid, [u64; D], Option<i32>) {
    (v.uuid(), v.point().coords().map(f64::to_bits), v.data)
}

fn same_point<const D: usize>(a: &V<D>, b: &V<D>) -> bool {
    a.point().coords().iter().zip(b.point().coords().iter()).all(|(x, y)| x == y)
}

fn check_list<const D: usize>(rep: &Report, cn: &Cn, list: &[V<D>], eps_values: &[f64]) {
    cn.lists.fetch_add(1, Ordering::Relaxed);
    let replay = |what: &str| json!({"D": D, "what": what, "list": list.iter().map(|v| v.point().coords().to_vec()).collect::<Vec<_>>()});
    let mut input_ids: Vec<_> = list.iter().map(ident).collect();
    input_ids.sort();
    // ---- orderings are permutations ----
    for strat in [InsertionOrderStrategy::Input, InsertionOrderStrategy::Lexicographic, InsertionOrderStrategy::Morton, InsertionOrderStrategy::Hilbert] {
        cn.orderings.fetch_add(1, Ordering::Relaxed);
        match guarded(|| verif_order_vertices(list.to_vec(), strat)) {
            Ok(out) => {
                let mut ids: Vec<_> = out.iter().map(ident).collect();
                ids.sort();
                if ids != input_ids {
                    rep.violation(Finding { signature: json!({"check": "ordering_not_permutation", "strategy": format!("{strat:?}"), "D": D}), description: format!("{strat:?} ordering returned {} vertices for {} inputs (or changed a vertex)", out.len(), list.len()), replay: replay("ordering") });
                }
            }
            Err(p) => rep.violation(Finding { signature: json!({"check": "ordering_panicked", "strategy": format!("{strat:?}"), "D": D}), description: format!("{strat:?} ordering panicked: {p}"), replay: replay("ordering") }),
        }
    }
    // ---- dedup ----
    let finite = list.iter().all(|v| v.point().coords().iter().all(|x| x.abs() < 1e150));
    let judge = |name: &str, out: Result<Vec<V<D>>, String>, eps: Option<f64>| {
        cn.dedups.fetch_add(1, Ordering::Relaxed);
        let out = match out {
            Ok(o) => o,
            Err(p) => {
                rep.violation(Finding { signature: json!({"check": "dedup_panicked", "impl": name, "D": D}), description: format!("{name} panicked: {p}"), replay: replay(name) });
                return;
            }
        };
        if out.len() < list.len() {
            cn.dedups_dropping.fetch_add(1, Ordering::Relaxed);
        }
        let sig = |check: &str| json!({"check": check, "impl": name, "D": D});
        // survivors are input vertices, none twice
        let mut ids: Vec<_> = out.iter().map(ident).collect();
        ids.sort();
        let dup = ids.windows(2).any(|w| w[0] == w[1]);
        if dup || ids.iter().any(|i| input_ids.binary_search(i).is_err()) {
            rep.violation(Finding { signature: sig("dedup_invented_or_duplicated"), description: format!("{name}: a survivor is not an input vertex or occurs twice"), replay: replay(name) });
            return;
        }
        match eps {
            None => {
                // exactly one representative per distinct coordinate tuple (numeric equality: +0.0 == -0.0)
                for (i, a) in out.iter().enumerate() {
                    if out.iter().skip(i + 1).any(|b| same_point(a, b)) {
                        rep.violation(Finding { signature: sig("exact_dedup_kept_two"), description: format!("{name}: two survivors share coordinates {:?}", a.point().coords()), replay: replay(name) });
                        return;
                    }
                }
                for v in list {
                    if !out.iter().any(|s| same_point(s, v)) {
                        rep.violation(Finding { signature: sig("exact_dedup_lost_point"), description: format!("{name}: coordinate tuple {:?} has no representative among the survivors", v.point().coords()), replay: replay(name) });
                        return;
                    }
                }
            }
            Some(e) => {
                if !finite {
                    // distances overflow: only the subset / no-invention claims are made
                    return;
                }
                for (i, a) in out.iter().enumerate() {
                    for b in out.iter().skip(i + 1) {
                        // strictly within the tolerance (boundary excluded by 1%)
                        if dist_cmp(a.point().coords(), b.point().coords(), e * 0.99) < 0 {
                            rep.violation(Finding { signature: sig("epsilon_survivors_too_close"), description: format!("{name}(eps={e:e}): survivors {:?} and {:?} are within the tolerance", a.point().coords(), b.point().coords()), replay: replay(name) });
                            return;
                        }
                    }
                }
                for v in list {
                    if !out.iter().any(|s| dist_cmp(s.point().coords(), v.point().coords(), e * 1.01) < 0) {
                        rep.violation(Finding { signature: sig("epsilon_dropped_without_survivor"), description: format!("{name}(eps={e:e}): {:?} was dropped although no survivor is within the tolerance", v.point().coords()), replay: replay(name) });
                        return;
                    }
                }
            }
        }
    };
    judge("dedup_vertices_exact(public)", guarded(|| dedup_vertices_exact(list)), None);
    judge("exact_sorted", guarded(|| verif_dedup_vertices(list.to_vec(), 0, 0.0, 1e-10)), None);
    judge("exact_hash_grid", guarded(|| verif_dedup_vertices(list.to_vec(), 1, 0.0, 1e-10)), None);
    for &e in eps_values {
        judge("dedup_vertices_epsilon(public)", guarded(|| dedup_vertices_epsilon(list, e)), Some(e));
        judge("epsilon_n2", guarded(|| verif_dedup_vertices(list.to_vec(), 2, e, e)), Some(e));
        judge("epsilon_quantized", guarded(|| verif_dedup_vertices(list.to_vec(), 3, e, e)), Some(e));
        judge("epsilon_hash_grid", guarded(|| verif_dedup_vertices(list.to_vec(), 4, e, e)), Some(e));
    }
}

fn lists_dim<const D: usize>(rep: &Report, cn: &Cn, axis_values: &[f64], max_len: usize, eps_values: &[f64]) {
    // point alphabet = full product of the per-axis alphabet
    let n = axis_values.len();
    let npts = n.pow(D as u32);
    let pts: Vec<[f64; D]> = (0..npts)
        .map(|mut i| {
            std::array::from_fn(|_| {
                let v = axis_values[i % n];
                i /= n;
                v
            })
        })
        .collect();
    for len in 0..=max_len {
        let total = npts.pow(len as u32);
        (0..total).into_par_iter().for_each(|mut code| {
            let list: Vec<V<D>> = (0..len)
                .map(|k| {
                    let p = pts[code % npts];
                    code /= npts;
                    mk_vertex::<i32, D>(p, 1 + k as u128, Some(k as i32))
                })
                .collect();
            check_list(rep, cn, &list, eps_values);
        });
    }
}

fn main() {
    let args = parse_args();
    if let Some(p) = &args.replay {
        std::process::exit(vcore::replay::generic(p));
    }
    silence_panics();
    let rep = Report::new("C17", &args);
    let thorough = args.tier == Tier::Thorough;
    let cn = Cn { hilbert_cells: AtomicU64::new(0), lists: AtomicU64::new(0), orderings: AtomicU64::new(0), dedups: AtomicU64::new(0), dedups_dropping: AtomicU64::new(0) };
    let tb = if thorough { 24 } else { 20 };
    hilbert_dim::<1>(&rep, &cn, tb);
    hilbert_dim::<2>(&rep, &cn, tb);
    hilbert_dim::<3>(&rep, &cn, tb);
    hilbert_dim::<4>(&rep, &cn, tb);
    hilbert_dim::<5>(&rep, &cn, tb);
    // tie-rich per-axis alphabet: signed zeros, a near-duplicate pair, a huge value, a value whose ratio to eps=1e-10 exceeds i64
    let axis = [-0.0, 0.0, 1.0, 1.0 + 1e-11, 4.0e9, 1e300];
    lists_dim::<2>(&rep, &cn, &axis, if thorough { 3 } else { 2 }, &[1e-10, 0.5]);
    lists_dim::<2>(&rep, &cn, &[-0.0, 0.0, 1.0, 1.0 + 1e-11], if thorough { 4 } else { 3 }, &[1e-10, 0.5]);
    lists_dim::<3>(&rep, &cn, &[-0.0, 0.0, 1.0 + 1e-11, 4.0e9], 2, &[1e-10]);
    lists_dim::<4>(&rep, &cn, &[0.0, 1.0, 1.0 + 1e-11], 2, &[1e-10]);
    lists_dim::<5>(&rep, &cn, &[0.0, 1.0 + 1e-11], 2, &[1e-10]);
    // chains inside one neighbourhood of tolerance-sized cells (eps = 0.5, spacing 0.3): a kept vertex that is far but in
    // an adjacent cell, a kept vertex that is near, and the vertex under test - the scan order decides which is met first
    let chain = [0.0, 0.3, 0.6, 0.9, 1.2];
    lists_dim::<1>(&rep, &cn, &chain, if thorough { 5 } else { 4 }, &[0.5]);
    lists_dim::<2>(&rep, &cn, &chain, if thorough { 4 } else { 3 }, &[0.5]);
    lists_dim::<3>(&rep, &cn, &[0.0, 0.3, 0.6, 0.9], 3, &[0.5]);
    let (hc, dd) = (cn.hilbert_cells.load(Ordering::Relaxed), cn.dedups_dropping.load(Ordering::Relaxed));
    if hc < 1_000_000 || dd < 1000 {
        machinery_fail(&format!("C17 vacuous: {hc} Hilbert cells, {dd} dedup calls that dropped something"));
    }
    let cov = json!({
        "evaluations": hc + cn.orderings.load(Ordering::Relaxed) + cn.dedups.load(Ordering::Relaxed),
        "distinct_nontrivial": cn.lists.load(Ordering::Relaxed) + dd,
        "rule": "Hilbert: every cell of the 2^(bD) grid for D=1..5 and every b with bD <= 20 (24 thorough) through hilbert_indices_prequantized (bijection onto the index range, consecutive indices adjacent), plus hilbert_quantize / hilbert_index at cell centres; orderings and dedup: every vertex list up to the stated length over the full product of a tie-rich per-axis alphabet (signed zeros, 1 and 1+1e-11, 4e9, 1e300; and chains 0, 0.3, .., 1.2 for eps = 0.5) through the four ordering strategies, the two public dedup helpers and the five private batch dedup implementations (hook wrappers) for eps in {1e-10, 0.5}; non-trivial = lists plus dedup calls that dropped a vertex",
        "exhaustive": true,
        "hilbert_cells": hc,
        "vertex_lists": cn.lists.load(Ordering::Relaxed),
        "ordering_calls": cn.orderings.load(Ordering::Relaxed),
        "dedup_calls": cn.dedups.load(Ordering::Relaxed),
        "dedup_calls_that_dropped_a_vertex": dd,
        "samples": [{"axis_alphabet": [-0.0, 0.0, 1.0, 1.0 + 1e-11, 4.0e9, 1e300], "example_list": [[-0.0, 1.0], [0.0, 1.0 + 1e-11], [4.0e9, 1e300]]}],
    });
    let code = rep.finish("exploration", cov, vec!["epsilon claims exclude a 1% shell around the tolerance and lists containing 1e300 (distance overflow)".into()], args.part.as_deref());
    std::process::exit(code);
}
