//! C08 — flip-based repair returns a Delaunay triangulation of the same vertices.
//! Starts: every valid state of the flip-graph closure (every flip distance), incremental builds with
//! repair disabled, states after removals with repair disabled.

use delaunay::core::delaunay_triangulation::DelaunayTriangulation;
use delaunay::core::operations::TopologicalOperation;
use delaunay::core::triangulation::TopologyGuarantee;
use delaunay::geometry::kernel::{FastKernel, Kernel, RobustKernel};
use rayon::prelude::*;
use serde_json::{Value, json};
use std::sync::atomic::{AtomicU64, Ordering};
use vcore::alpha::{self, subsets};
use vcore::corpus::{self, flip_closure, general_position, is_valid_triangulation, reference_delaunay};
use vcore::dtx::{fingerprint, reference_verdict, silence_panics, snap_of};
use vcore::model::{self, DtI, Op, Outcome};
use vcore::refval;
use vcore::report::{Finding, Report, Tier, machinery_fail, parse_args};

struct Cn {
    starts: AtomicU64,
    repairs: AtomicU64,
    ok: AtomicU64,
    ok_nontrivial: AtomicU64,
    gp_equal_checked: AtomicU64,
    capped: AtomicU64,
    transitions: AtomicU64,
}

#[allow(clippy::too_many_arguments)]
fn repair_and_check<K: Kernel<D, Scalar = f64>, const D: usize>(rep: &Report, cn: &Cn, kname: &str, family: &str, start_kind: &str, pts: &[[f64; D]], gp: bool, refdt: Option<&Vec<Vec<usize>>>, start: &DtI<K, D>, dist: usize) {
    cn.starts.fetch_add(1, Ordering::Relaxed);
    let start_snap = snap_of(start);
    let start_delaunay = refval::delaunay_violations(&start_snap, true).is_empty();
    let verts_before: Vec<String> = {
        let mut v: Vec<String> = start_snap.verts.iter().map(|x| format!("{}:{:?}:{}", x.uuid, x.c.map(f64::to_bits), x.data)).collect();
        v.sort();
        v
    };
    for tg in 0..3u8 {
        for op in [Op::Repair, Op::RepairAdvanced] {
            let mut dt = start.clone();
            dt.set_topology_guarantee(model::tg_of(tg));
            let before_fp = fingerprint(&dt);
            let admissible = TopologicalOperation::FacetFlip.is_admissible_under(model::tg_of(tg));
            cn.repairs.fetch_add(1, Ordering::Relaxed);
            let t0 = std::time::Instant::now();
            let out = model::apply(&mut dt, &op, &[]);
            let secs = t0.elapsed().as_secs_f64();
            rep.outcome(&format!("{:?}:{}", op, out.class()));
            if matches!(&out, Outcome::Err { class, .. } if class.contains("PostconditionFailed") || class.contains("NonConvergent")) {
                // where the repair ladder gives up: these start states exercise its last rungs
                rep.outcome(&format!("gave_up:D{D}:{family}:n={}:{start_kind}:{kname}", pts.len()));
            }
            let replay = || json!({"D": D, "kernel": kname, "family": family, "start": start_kind, "points": pts.iter().map(|p| p.to_vec()).collect::<Vec<_>>(), "start_cells": corpus::cells_as_indices(&start_snap, pts), "guarantee": format!("{:?}", model::tg_of(tg)), "op": op, "flip_distance": dist});
            let sig = |check: &str, extra: Value| json!({"check": check, "op": format!("{op:?}"), "D": D, "family": family, "start": start_kind, "detail": extra});
            if secs > 60.0 {
                rep.violation(Finding { signature: sig("termination", json!(null)), description: format!("{op:?} took {secs:.1}s on {} vertices", pts.len()), replay: replay() });
            }
            match &out {
                Outcome::Panic { .. } => continue,
                Outcome::Ok { .. } => {
                    cn.ok.fetch_add(1, Ordering::Relaxed);
                    if !start_delaunay {
                        cn.ok_nontrivial.fetch_add(1, Ordering::Relaxed);
                    }
                    if !admissible {
                        rep.violation(Finding { signature: sig("ran_when_inadmissible", json!(null)), description: format!("{op:?} returned Ok although flips are not admissible under {:?}", model::tg_of(tg)), replay: replay() });
                        continue;
                    }
                    let (snap, verdict) = reference_verdict(&dt, false, false);
                    let mut verts_after: Vec<String> = snap.verts.iter().map(|x| format!("{}:{:?}:{}", x.uuid, x.c.map(f64::to_bits), x.data)).collect();
                    verts_after.sort();
                    let used_heuristic = matches!(&out, Outcome::Ok { class, .. } if class == "RepairedHeuristic");
                    // the heuristic rebuild re-inserts the vertices and may perturb coordinates: compare uuid+data only then
                    let same_vertices = if used_heuristic {
                        let strip = |v: &Vec<String>| v.iter().map(|s| format!("{}|{}", s.split(':').next().unwrap_or(""), s.rsplit(':').next().unwrap_or(""))).collect::<Vec<_>>();
                        strip(&verts_after) == strip(&verts_before)
                    } else {
                        verts_after == verts_before
                    };
                    if !same_vertices {
                        rep.violation(Finding { signature: sig("same_vertices", json!({"heuristic": used_heuristic})), description: format!("{op:?} returned Ok but the vertex set changed ({} -> {} vertices)", verts_before.len(), verts_after.len()), replay: replay() });
                        continue;
                    }
                    if let Some(first) = verdict.first() {
                        let level = first.split(':').next().unwrap_or("?").to_string();
                        rep.violation(Finding { signature: sig("reference_validity", json!(level)), description: format!("{op:?} returned Ok but the result fails the independent reference: {first}"), replay: replay() });
                        continue;
                    }
                    if let Some(&(ci, vi)) = refval::delaunay_violations(&snap, true).first() {
                        rep.violation(Finding {
                            signature: sig("empty_circumsphere", json!({"mechanism": refval::violation_mechanism(&snap)})),
                            description: format!("{op:?} returned Ok but vertex {:?} is strictly inside the circumsphere of cell {:?} (exact, outside the band); start was at flip distance {dist}", snap.verts[vi].c, snap.cell_points(ci)),
                            replay: replay(),
                        });
                        continue;
                    }
                    if gp && !used_heuristic {
                        if let (Some(r), Some(got)) = (refdt, corpus::cells_as_indices(&snap, pts)) {
                            cn.gp_equal_checked.fetch_add(1, Ordering::Relaxed);
                            if &got != r {
                                rep.violation(Finding { signature: sig("equals_unique_delaunay", json!(null)), description: format!("{op:?} returned Ok on a general-position set but the cells differ from the unique Delaunay triangulation ({} vs {} cells)", got.len(), r.len()), replay: replay() });
                            }
                        }
                    }
                }
                o if o.is_failure() => {
                    // Err: state must be unchanged (C03 owns the general statement; checked here for the repair entry points from every start)
                    if fingerprint(&dt) != before_fp {
                        rep.violation(Finding { signature: sig("err_changed_state", json!(o.class())), description: format!("{op:?} returned {} but changed the triangulation", o.class()), replay: replay() });
                    }
                }
                _ => {}
            }
        }
    }
}

fn run_seed<K: Kernel<D, Scalar = f64>, const D: usize>(rep: &Report, cn: &Cn, kname: &str, family: &str, pts: &[[f64; D]], cap: usize) {
    let gp = general_position(pts);
    let refdt = if gp { Some(reference_delaunay(pts)) } else { None };
    if let Some(seed) = corpus::build::<K, D>(pts, TopologyGuarantee::PLManifold) {
        let cl = flip_closure(&seed, false, cap);
        cn.transitions.fetch_add(cl.transitions, Ordering::Relaxed);
        if cl.capped {
            cn.capped.fetch_add(1, Ordering::Relaxed);
        }
        for (dt, valid, dist) in &cl.states {
            if *valid {
                repair_and_check(rep, cn, kname, family, "flip_closure", pts, gp, refdt.as_ref(), dt, *dist);
            }
        }
        if pts.len() == D + 3 {
            rep.sample(json!({"D": D, "kernel": kname, "family": family, "points": pts.iter().map(|p| p.to_vec()).collect::<Vec<_>>(), "closure_states": cl.states.len(), "general_position": gp}), 8);
        }
        // the same closure from a build with recycled vertex slots (unperturbed builds only, so that `pts` describes it)
        if let Some(rdt) = corpus::build_recycled::<K, D>(pts, TopologyGuarantee::PLManifold) {
            if rdt.vertices().all(|(_, v)| pts.iter().any(|p| p == v.point().coords())) {
                let cl = flip_closure(&rdt, false, cap);
                cn.transitions.fetch_add(cl.transitions, Ordering::Relaxed);
                for (dt, valid, dist) in &cl.states {
                    if *valid {
                        repair_and_check(rep, cn, kname, family, "flip_closure", pts, gp, refdt.as_ref(), dt, *dist);
                    }
                }
            }
        }
        // after removal of each vertex with repair disabled
        for v in 0..seed.number_of_vertices() {
            let mut d = seed.clone();
            model::apply(&mut d, &Op::SetRP(1), &[]);
            if let Outcome::Ok { .. } = model::apply(&mut d, &Op::Remove { v }, &[]) {
                if is_valid_triangulation(&d) {
                    let rest: Vec<[f64; D]> = d.vertices().map(|(_, x)| *x.point().coords()).collect();
                    let gp2 = general_position(&rest);
                    let r2 = if gp2 { Some(reference_delaunay(&rest)) } else { None };
                    repair_and_check(rep, cn, kname, family, "after_removal_repair_off", &rest, gp2, r2.as_ref(), &d, 0);
                }
            }
        }
    }
    // incremental build with repair disabled, input order
    let mut d: DtI<K, D> = DelaunayTriangulation::with_empty_kernel(K::default());
    model::apply(&mut d, &Op::SetRP(1), &[]);
    let alphabet: Vec<[f64; D]> = pts.to_vec();
    let mut all_in = true;
    for p in 0..alphabet.len() {
        if !matches!(model::apply(&mut d, &Op::Insert { p, uid: p as u32, stats: false }, &alphabet), Outcome::Ok { .. }) {
            all_in = false;
        }
    }
    if all_in && is_valid_triangulation(&d) {
        // inserted vertices may have been perturbed: judge against the stored coordinates
        let stored: Vec<[f64; D]> = d.vertices().map(|(_, x)| *x.point().coords()).collect();
        let gp2 = general_position(&stored);
        let r2 = if gp2 { Some(reference_delaunay(&stored)) } else { None };
        repair_and_check(rep, cn, kname, family, "incremental_repair_off", &stored, gp2, r2.as_ref(), &d, 0);
    }
}

fn run_family<const D: usize>(rep: &Report, cn: &Cn, family: &str, alphabet: &[[f64; D]], sizes: std::ops::RangeInclusive<usize>, cap: usize, bounds: &mut Vec<Value>) {
    let mut sets: Vec<Vec<[f64; D]>> = Vec::new();
    for k in sizes.clone() {
        for s in subsets(alphabet.len(), k) {
            sets.push(s.iter().map(|&i| alphabet[i]).collect());
        }
    }
    sets.par_iter().for_each(|pts| {
        run_seed::<FastKernel<f64>, D>(rep, cn, "fast", family, pts, cap);
        run_seed::<RobustKernel<f64>, D>(rep, cn, "robust", family, pts, cap);
    });
    bounds.push(json!({"D": D, "family": family, "alphabet": alphabet.len(), "subset_sizes": format!("{sizes:?}"), "point_sets": sets.len(), "kernels": 2, "guarantees": 3, "entry_points": 2, "closure_cap": cap}));
}

fn gp_points<const D: usize>(n: usize) -> Vec<[f64; D]> {
    let primes = [7i64, 11, 13, 17, 19];
    (0..n as i64)
        .map(|i| {
            std::array::from_fn(|j| {
                let mut v = 1i64;
                for _ in 0..=j {
                    v = (v * (i + 2)) % primes[j];
                }
                (v + if j == 0 { 3 * i } else { 0 }) as f64
            })
        })
        .collect()
}

fn replay_go<K: Kernel<D, Scalar = f64>, const D: usize>(r: &Value) {
    let raw: Vec<Vec<f64>> = r["points"].as_array().unwrap().iter().map(|p| p.as_array().unwrap().iter().map(|x| x.as_f64().unwrap()).collect()).collect();
    let pts: Vec<[f64; D]> = raw.iter().map(|p| std::array::from_fn(|i| p[i])).collect();
    let want: Vec<Vec<usize>> = serde_json::from_value(r["start_cells"].clone()).unwrap();
    let op: Op = serde_json::from_value(r["op"].clone()).unwrap();
    let seed = corpus::build::<K, D>(&pts, TopologyGuarantee::PLManifold).expect("seed builds");
    let cl = flip_closure(&seed, false, 100_000);
    let Some((start, _, dist)) = cl.states.iter().find(|(d, _, _)| corpus::cells_as_indices(&snap_of(d), &pts).as_ref() == Some(&want)) else {
        println!("start state not found in the closure (start kind {})", r["start"]);
        return;
    };
    let tg = match r["guarantee"].as_str().unwrap() { "Pseudomanifold" => 1, "PLManifoldStrict" => 2, _ => 0 };
    let mut dt = start.clone();
    dt.set_topology_guarantee(model::tg_of(tg));
    println!("start at flip distance {dist}: library validate = {:?}", dt.validate().map_err(|e| e.to_string()));
    let out = model::apply(&mut dt, &op, &[]);
    let (snap, verdict) = reference_verdict(&dt, false, true);
    println!("{op:?} -> {:?}", out);
    println!("reference verdict: {:?}", verdict.first());
    println!("certain Delaunay violations: {:?}", refval::delaunay_violations(&snap, false).len());
    println!("library: tds.is_valid={:?}", dt.tds().is_valid().map_err(|e| e.to_string()));
    println!("library: triangulation.is_valid (L3)={:?}", dt.as_triangulation().is_valid().map_err(|e| e.to_string()));
    println!("library: validate={:?}", dt.validate().map_err(|e| e.to_string()));
    for ci in 0..snap.n_cells() {
        let p = snap.cell_points(ci).unwrap();
        println!("  cell {ci} orientation(exact)={} {:?}", vcore::exact::orient(&p).sign, p);
    }
}

fn main() {
    let args = parse_args();
    if let Some(path) = &args.replay {
        let doc: Value = serde_json::from_str(&std::fs::read_to_string(path).unwrap()).unwrap();
        let r = &doc["replay"];
        println!("replay {path}\n  {}", doc["description"]);
        let fast = r["kernel"] == "fast";
        match (r["D"].as_u64().unwrap(), fast) {
            (2, true) => replay_go::<FastKernel<f64>, 2>(r),
            (2, false) => replay_go::<RobustKernel<f64>, 2>(r),
            (3, true) => replay_go::<FastKernel<f64>, 3>(r),
            (3, false) => replay_go::<RobustKernel<f64>, 3>(r),
            (4, true) => replay_go::<FastKernel<f64>, 4>(r),
            (4, false) => replay_go::<RobustKernel<f64>, 4>(r),
            (_, true) => replay_go::<FastKernel<f64>, 5>(r),
            (_, false) => replay_go::<RobustKernel<f64>, 5>(r),
        }
        std::process::exit(0);
    }
    silence_panics();
    let rep = Report::new("C08", &args);
    vcore::exact::self_check();
    let thorough = args.tier == Tier::Thorough;
    let x = usize::from(thorough);
    let cn = Cn { starts: AtomicU64::new(0), repairs: AtomicU64::new(0), ok: AtomicU64::new(0), ok_nontrivial: AtomicU64::new(0), gp_equal_checked: AtomicU64::new(0), capped: AtomicU64::new(0), transitions: AtomicU64::new(0) };
    let mut bounds = Vec::new();
    let cap = if thorough { 20_000 } else { 3000 };
    run_family::<2>(&rep, &cn, "G2(3) subsets", &alpha::grid::<2>(3), 4..=6 + x, cap, &mut bounds);
    run_family::<2>(&rep, &cn, "general position", &gp_points::<2>(9), 4..=7 + x, cap, &mut bounds);
    run_family::<3>(&rep, &cn, "cube3 subsets", &alpha::grid::<3>(2), 5..=7 + x, cap, &mut bounds);
    let probe3: Vec<[f64; 3]> = vec![[0.0, 0.0, 0.0], [4.0, 0.0, 1.0], [0.0, 4.0, 1.0], [1.0, 1.0, 5.0], [2.0, 2.0, 2.0], [3.0, 3.0, 0.0], [1.0, 2.0, 1.0], [3.0, 1.0, 3.0]];
    run_family::<3>(&rep, &cn, "integer probe set", &probe3, 7..=8, cap, &mut bounds);
    run_family::<3>(&rep, &cn, "general position", &gp_points::<3>(8), 5..=7 + x, cap, &mut bounds);
    run_family::<4>(&rep, &cn, "cube alphabet subsets", &alpha::cube_alphabet::<4>(), 6..=7, cap, &mut bounds);
    run_family::<4>(&rep, &cn, "general position", &gp_points::<4>(8), 6..=7 + x, cap, &mut bounds);
    run_family::<5>(&rep, &cn, "cube alphabet subsets", &alpha::cube_alphabet::<5>(), 7..=7 + x, cap, &mut bounds);
    run_family::<5>(&rep, &cn, "general position", &gp_points::<5>(8 + x), 7..=8, cap, &mut bounds);
    let nt = cn.ok_nontrivial.load(Ordering::Relaxed);
    if nt < 200 || cn.gp_equal_checked.load(Ordering::Relaxed) < 100 {
        machinery_fail(&format!("C08 vacuous: {nt} successful repairs from non-Delaunay starts"));
    }
    let cov = json!({
        "states": cn.starts.load(Ordering::Relaxed),
        "transitions": cn.repairs.load(Ordering::Relaxed) + cn.transitions.load(Ordering::Relaxed),
        "traces_validated_against_impl": cn.repairs.load(Ordering::Relaxed),
        "repair_calls": cn.repairs.load(Ordering::Relaxed),
        "repair_ok": cn.ok.load(Ordering::Relaxed),
        "repair_ok_from_non_delaunay_start": nt,
        "compared_with_unique_delaunay": cn.gp_equal_checked.load(Ordering::Relaxed),
        "exhaustive": cn.capped.load(Ordering::Relaxed) == 0,
        "closures_capped": cn.capped.load(Ordering::Relaxed),
        "rule": "starts = every valid state of the complete flip closure of each point set (i.e. every flip distance from Delaunay that exists), each seed after removing each vertex with repair disabled, and the incremental build with repair disabled; each start x 3 guarantees x {repair_delaunay_with_flips, repair_delaunay_with_flips_advanced}; Ok results judged by the exact oracle and, in general position, by equality with the brute-force unique Delaunay triangulation",
        "bounds": bounds,
    });
    let code = rep.finish("model_checking", cov, vec!["exact oracle self-check passed".into(), "general position is decided exactly on the stored coordinates".into()], args.part.as_deref());
    std::process::exit(code);
}
