//! C13 — serialisation round trip reproduces the same triangulation; corrupted documents are rejected
//! or load as a structurally consistent complex.

use delaunay::core::delaunay_triangulation::DelaunayTriangulation;
use delaunay::core::triangulation::TopologyGuarantee;
use delaunay::core::triangulation_data_structure::Tds;
use delaunay::geometry::kernel::{FastKernel, Kernel, RobustKernel};
use rayon::prelude::*;
use serde_json::{Value, json};
use std::collections::HashMap;
use std::sync::atomic::{AtomicU64, Ordering};
use vcore::alpha::{self, mk_vertices, subsets};
use vcore::corpus::{general_position, state_corpus};
use vcore::dtx::{fingerprint, guarded, silence_panics};
use vcore::model::{self, DtI, Op, Outcome};
use vcore::refval::{self, Lookups};
use vcore::report::{Finding, Report, Tier, machinery_fail, msg_class, parse_args};
use vcore::snap::Snap;

struct Cn {
    subjects: AtomicU64,
    round_trips: AtomicU64,
    followups: AtomicU64,
    corruptions: AtomicU64,
    corruptions_rejected: AtomicU64,
    corruptions_loaded: AtomicU64,
}

fn tds_lookups<const D: usize>(t: &Tds<f64, i32, (), D>, s: &Snap<D>) -> Lookups {
    let mut vm = HashMap::new();
    for v in &s.verts {
        vm.insert(v.uuid, t.vertex_key_from_uuid(&v.uuid));
    }
    let mut cm = HashMap::new();
    for c in &s.cells {
        cm.insert(c.uuid, t.cell_key_from_uuid(&c.uuid));
    }
    Lookups { vertex_uuid_to_key: vm, cell_uuid_to_key: cm }
}

fn verdicts<K: Kernel<D, Scalar = f64>, const D: usize>(dt: &DtI<K, D>) -> String {
    format!(
        "L2={} L12={} L3={} L123={} L4={} all={} report={}",
        dt.tds().is_valid().is_ok(),
        dt.tds().validate().is_ok(),
        dt.as_triangulation().is_valid().is_ok(),
        dt.as_triangulation().validate().is_ok(),
        dt.is_valid().is_ok(),
        dt.validate().is_ok(),
        dt.validation_report().is_ok()
    )
}

#[allow(clippy::too_many_arguments)]
fn round_trip<K: Kernel<D, Scalar = f64>, const D: usize>(rep: &Report, cn: &Cn, kname: &str, family: &str, prov: &str, dt: &DtI<K, D>, alphabet: &[[f64; D]], gp: bool) -> Option<String> {
    cn.round_trips.fetch_add(1, Ordering::Relaxed);
    let replay = |extra: Value| json!({"D": D, "kernel": kname, "family": family, "state": prov, "document": serde_json::to_value(dt.tds()).ok(), "detail": extra});
    let doc = match serde_json::to_string(dt.tds()) {
        Ok(d) => d,
        Err(e) => {
            rep.violation(Finding { signature: json!({"check": "serialize_failed", "D": D}), description: format!("serialising a reachable triangulation failed: {e}"), replay: replay(json!(null)) });
            return None;
        }
    };
    let back: Tds<f64, i32, (), D> = match guarded(|| serde_json::from_str(&doc)) {
        Ok(Ok(t)) => t,
        Ok(Err(e)) => {
            rep.violation(Finding { signature: json!({"check": "own_output_rejected", "D": D, "state_kind": prov.split('(').next()}), description: format!("deserialising the crate's own output failed: {e}"), replay: replay(json!(null)) });
            return None;
        }
        Err(p) => {
            rep.violation(Finding { signature: json!({"check": "panic_on_own_output", "D": D}), description: format!("deserialising the crate's own output panicked: {p}"), replay: replay(json!(null)) });
            return None;
        }
    };
    let (sa, sb) = (Snap::of(dt.tds()), Snap::of(&back));
    let sig = |check: &str| json!({"check": check, "D": D, "state_kind": prov.split('(').next()});
    if sa.semantic(true) != sb.semantic(true) {
        let what = if sa.n_vertices() != sb.n_vertices() {
            "vertex count"
        } else if sa.n_cells() != sb.n_cells() {
            "cell count"
        } else if sa.cell_sets() != sb.cell_sets() {
            "cell set"
        } else {
            "uuids / data / neighbours"
        };
        rep.violation(Finding { signature: sig("round_trip_differs"), description: format!("round trip changed the triangulation ({what}): {} -> {} vertices, {} -> {} cells", sa.n_vertices(), sb.n_vertices(), sa.n_cells(), sb.n_cells()), replay: replay(json!(what)) });
        return Some(doc);
    }
    if &back != dt.tds() {
        rep.violation(Finding { signature: sig("not_equal"), description: "the deserialised Tds does not compare == to the original".into(), replay: replay(json!(null)) });
    }
    // same validation verdicts, through from_tds
    let mut re: DtI<K, D> = DelaunayTriangulation::from_tds_with_topology_guarantee(back, K::default(), dt.topology_guarantee());
    re.set_validation_policy(dt.validation_policy());
    re.set_delaunay_repair_policy(dt.delaunay_repair_policy());
    re.set_delaunay_check_policy(dt.delaunay_check_policy());
    let (va, vb) = (verdicts(dt), verdicts(&re));
    if va != vb {
        rep.violation(Finding { signature: sig("verdicts_differ"), description: format!("validation verdicts differ after the round trip: original {va}, restored {vb}"), replay: replay(json!(null)) });
    }
    // remains fully usable: follow-ups agree (general position only: storage order changes on load)
    if gp {
        let mut fops: Vec<Op> = (0..alphabet.len()).map(|p| Op::Insert { p, uid: 8000 + p as u32, stats: false }).collect();
        fops.extend((0..dt.number_of_vertices()).map(|v| Op::Remove { v }));
        for f in fops {
            cn.followups.fetch_add(1, Ordering::Relaxed);
            // remove by uuid-order ordinal: vertex iteration order may differ after load, so address the same vertex
            let (mut a, mut b) = (dt.clone(), re.clone());
            let fb = match &f {
                Op::Remove { v } => {
                    let uuid = a.vertices().nth(*v).map(|(_, x)| x.uuid());
                    let idx = b.vertices().position(|(_, x)| Some(x.uuid()) == uuid);
                    match idx {
                        Some(i) => Op::Remove { v: i },
                        None => continue,
                    }
                }
                o => o.clone(),
            };
            let oa = model::apply(&mut a, &f, alphabet);
            let ob = model::apply(&mut b, &fb, alphabet);
            if oa.class() != ob.class() || (matches!(oa, Outcome::Ok { .. }) && fingerprint(&a) != fingerprint(&b)) {
                let victim = if let Op::Remove { v } = &f {
                    let s0 = Snap::of(dt.tds());
                    let key = s0.verts[*v].key;
                    if refval::facet_map(&s0).iter().any(|(fc, inc)| inc.len() == 1 && fc.contains(&key)) { "hull" } else { "interior" }
                } else {
                    "-"
                };
                rep.violation(Finding { signature: json!({"check": "followup_differs", "D": D, "op": format!("{f:?}").split(' ').next(), "victim": victim}), description: format!("{f:?} gives {} on the original but {} on the restored triangulation (or different results)", oa.class(), ob.class()), replay: replay(json!({"op": f})) });
                break;
            }
        }
    }
    Some(doc)
}

/// all single-field corruptions of a Tds document
fn corruptions(doc: &Value) -> Vec<(String, Value)> {
    let mut out: Vec<(String, Value)> = Vec::new();
    let verts = doc["vertices"].as_array().cloned().unwrap_or_default();
    let cells = doc["cells"].as_array().cloned().unwrap_or_default();
    let cv = doc["cell_vertices"].as_object().cloned().unwrap_or_default();
    let live_v: Vec<usize> = verts.iter().enumerate().filter(|(_, e)| !e["value"].is_null()).map(|(i, _)| i).collect();
    let live_c: Vec<usize> = cells.iter().enumerate().filter(|(_, e)| !e["value"].is_null()).map(|(i, _)| i).collect();
    let unknown = "0f0f0f0f-1234-4abc-8def-0123456789ab";
    let uuid_of = |i: usize| verts[i]["value"]["uuid"].as_str().unwrap_or("").to_string();
    let mut push = |name: String, f: &dyn Fn(&mut Value)| {
        let mut d = doc.clone();
        f(&mut d);
        out.push((name, d));
    };
    for &i in &live_v {
        let other = live_v.iter().copied().find(|&j| j != i).unwrap_or(i);
        let ou = uuid_of(other);
        push(format!("vertex[{i}].uuid:=live"), &|d| d["vertices"][i]["value"]["uuid"] = json!(ou));
        push(format!("vertex[{i}].uuid:=unknown"), &|d| d["vertices"][i]["value"]["uuid"] = json!(unknown));
        push(format!("vertex[{i}].uuid:=nil"), &|d| d["vertices"][i]["value"]["uuid"] = json!("00000000-0000-0000-0000-000000000000"));
        push(format!("vertex[{i}].value:=null"), &|d| d["vertices"][i]["value"] = Value::Null);
        push(format!("vertex[{i}].version+1"), &|d| d["vertices"][i]["version"] = json!(d["vertices"][i]["version"].as_u64().unwrap_or(1) + 1));
        push(format!("vertex[{i}].version-1"), &|d| d["vertices"][i]["version"] = json!(d["vertices"][i]["version"].as_u64().unwrap_or(1).saturating_sub(1)));
        push(format!("vertex[{i}].duplicated"), &|d| {
            let e = d["vertices"][i].clone();
            d["vertices"].as_array_mut().unwrap().push(e);
        });
        push(format!("vertex[{i}].data:=string"), &|d| d["vertices"][i]["value"]["data"] = json!("x"));
        let np = verts[i]["value"]["point"].as_array().map(|a| a.len()).unwrap_or(0);
        for c in 0..np.min(2) {
            push(format!("vertex[{i}].point[{c}]:=null"), &|d| d["vertices"][i]["value"]["point"][c] = Value::Null);
            push(format!("vertex[{i}].point[{c}]:=\"Infinity\""), &|d| d["vertices"][i]["value"]["point"][c] = json!("Infinity"));
            push(format!("vertex[{i}].point[{c}]:=string"), &|d| d["vertices"][i]["value"]["point"][c] = json!("abc"));
            push(format!("vertex[{i}].point[{c}]:=other"), &|d| d["vertices"][i]["value"]["point"][c] = json!(7.5));
            if let Some(o) = live_v.iter().copied().find(|&j| j != i) {
                // move onto another vertex (duplicate coordinates / flat cells)
                let op = verts[o]["value"]["point"].clone();
                push(format!("vertex[{i}].point:=point of vertex[{o}]"), &|d| d["vertices"][i]["value"]["point"] = op.clone());
            }
        }
        push(format!("vertex[{i}].point:shorter"), &|d| {
            d["vertices"][i]["value"]["point"].as_array_mut().unwrap().pop();
        });
    }
    for &i in &live_c {
        let cu = cells[i]["value"]["uuid"].as_str().unwrap_or("").to_string();
        let other = live_c.iter().copied().find(|&j| j != i);
        push(format!("cell[{i}].uuid:=unknown"), &|d| d["cells"][i]["value"]["uuid"] = json!(unknown));
        push(format!("cell[{i}].uuid:=nil"), &|d| d["cells"][i]["value"]["uuid"] = json!("00000000-0000-0000-0000-000000000000"));
        if let Some(o) = other {
            let ou = cells[o]["value"]["uuid"].clone();
            push(format!("cell[{i}].uuid:=live"), &|d| d["cells"][i]["value"]["uuid"] = ou.clone());
        }
        push(format!("cell[{i}].value:=null"), &|d| d["cells"][i]["value"] = Value::Null);
        push(format!("cell[{i}].version+1"), &|d| d["cells"][i]["version"] = json!(d["cells"][i]["version"].as_u64().unwrap_or(1) + 1));
        push(format!("cell[{i}].duplicated"), &|d| {
            let e = d["cells"][i].clone();
            d["cells"].as_array_mut().unwrap().push(e);
        });
        if let Some(list) = cv.get(&cu).and_then(|l| l.as_array()) {
            let n = list.len();
            push(format!("cell_vertices[{i}]:dropped"), &|d| {
                d["cell_vertices"].as_object_mut().unwrap().remove(&cu);
            });
            for k in 0..n {
                push(format!("cell_vertices[{i}][{k}]:removed"), &|d| {
                    d["cell_vertices"][&cu].as_array_mut().unwrap().remove(k);
                });
                push(format!("cell_vertices[{i}][{k}]:=unknown"), &|d| d["cell_vertices"][&cu][k] = json!(unknown));
                push(format!("cell_vertices[{i}][{k}]:=repeat of [{}]", (k + 1) % n), &|d| d["cell_vertices"][&cu][k] = d["cell_vertices"][&cu][(k + 1) % n].clone());
                push(format!("cell_vertices[{i}][{k}]:duplicated"), &|d| {
                    let e = d["cell_vertices"][&cu][k].clone();
                    d["cell_vertices"][&cu].as_array_mut().unwrap().push(e);
                });
                // replaced by a live vertex that is not in the cell
                for &vi in &live_v {
                    let vu = uuid_of(vi);
                    if !list.iter().any(|x| x.as_str() == Some(vu.as_str())) {
                        push(format!("cell_vertices[{i}][{k}]:=other live vertex"), &|d| d["cell_vertices"][&cu][k] = json!(vu));
                        break;
                    }
                }
            }
            push(format!("cell_vertices[{i}]:swap01"), &|d| {
                d["cell_vertices"][&cu].as_array_mut().unwrap().swap(0, 1);
            });
            if let Some(o) = other {
                let ou = cells[o]["value"]["uuid"].as_str().unwrap_or("").to_string();
                let ol = cv.get(&ou).cloned().unwrap_or(Value::Null);
                push(format!("cell_vertices[{i}]:=list of cell[{o}] (duplicate cell)"), &|d| d["cell_vertices"][&cu] = ol.clone());
            }
        }
    }
    push("cell_vertices:+entry for unknown cell".into(), &|d| {
        let first = d["cell_vertices"].as_object().and_then(|o| o.values().next().cloned()).unwrap_or(json!([]));
        d["cell_vertices"][unknown] = first;
    });
    push("vertices:=[]".into(), &|d| d["vertices"] = json!([]));
    push("cells:=[]".into(), &|d| d["cells"] = json!([]));
    push("cell_vertices:={}".into(), &|d| d["cell_vertices"] = json!({}));
    push("cell_vertices:removed".into(), &|d| {
        d.as_object_mut().unwrap().remove("cell_vertices");
    });
    out
}

fn corruption_class(name: &str) -> String {
    msg_class(name)
}

fn check_corruptions<const D: usize>(rep: &Report, cn: &Cn, family: &str, prov: &str, doc: &str) {
    let Ok(v) = serde_json::from_str::<Value>(doc) else { return };
    for (name, bad) in corruptions(&v) {
        cn.corruptions.fetch_add(1, Ordering::Relaxed);
        let text = bad.to_string();
        let r: Result<Result<Tds<f64, i32, (), D>, serde_json::Error>, String> = guarded(|| serde_json::from_str(&text));
        let replay = || json!({"D": D, "family": family, "state": prov, "corruption": name, "document": bad});
        match r {
            Err(p) => {
                rep.violation(Finding { signature: json!({"check": "panic_on_corrupted_document", "corruption": corruption_class(&name)}), description: format!("deserialising a corrupted document ({name}) panicked: {p}"), replay: replay() });
            }
            Ok(Err(_)) => {
                cn.corruptions_rejected.fetch_add(1, Ordering::Relaxed);
                rep.outcome("corrupted:rejected");
            }
            Ok(Ok(t)) => {
                cn.corruptions_loaded.fetch_add(1, Ordering::Relaxed);
                rep.outcome("corrupted:loaded");
                let s = Snap::of(&t);
                let l1 = refval::level1(&s);
                let lk = tds_lookups(&t, &s);
                let l2 = if l1.is_empty() { refval::level2(&s, Some(&lk)) } else { vec![] };
                if let Some(e) = l1.first().map(|e| format!("L1: {e}")).or(l2.first().map(|e| format!("L2: {e}"))) {
                    rep.violation(Finding {
                        signature: json!({"check": "inconsistent_document_loaded", "corruption": corruption_class(&name), "reference": msg_class(&e)}),
                        description: format!("a document that does not describe a structurally consistent complex ({name}) was loaded instead of rejected; the loaded value fails the reference: {e}"),
                        replay: replay(),
                    });
                }
            }
        }
    }
}

fn run_set<K: Kernel<D, Scalar = f64>, const D: usize>(rep: &Report, cn: &Cn, kname: &str, family: &str, pts: &[[f64; D]], alphabet: &[[f64; D]], cap: usize, corrupt: bool) {
    let gp = general_position(pts);
    let mut subjects: Vec<(String, DtI<K, D>)> = state_corpus::<K, D>(pts, cap);
    // bootstrap-phase subjects: 1..D vertices, no cells
    for n in 0..=D.min(pts.len()) {
        let mut d: DtI<K, D> = DelaunayTriangulation::with_empty_kernel(K::default());
        let a: Vec<[f64; D]> = pts.to_vec();
        for p in 0..n {
            let _ = model::apply(&mut d, &Op::Insert { p, uid: p as u32, stats: false }, &a);
        }
        subjects.push((format!("bootstrap({n})"), d));
    }
    // cell data on every other cell, vacated slots after a removal + insertion
    if let Some((_, first)) = subjects.first().cloned() {
        cell_data_route::<K, D>(rep, cn, kname, family, pts);
        let mut d = first;
        let _ = model::apply(&mut d, &Op::Remove { v: 0 }, &[]);
        let _ = model::apply(&mut d, &Op::InsertAt { c: (0..D).map(|i| 0.37 + 0.11 * i as f64).collect(), uid: 77, stats: false }, &[]);
        subjects.push(("after_remove_and_insert".into(), d));
    }
    for (i, (prov, dt)) in subjects.iter().enumerate() {
        cn.subjects.fetch_add(1, Ordering::Relaxed);
        if let Some(doc) = round_trip(rep, cn, kname, family, prov, dt, alphabet, gp) {
            if corrupt && i < 2 && kname == "fast" {
                check_corruptions::<D>(rep, cn, family, prov, &doc);
            }
        }
    }
    if pts.len() == D + 2 {
        rep.sample(json!({"D": D, "kernel": kname, "family": family, "points": pts.iter().map(|p| p.to_vec()).collect::<Vec<_>>(), "subjects": subjects.len()}), 6);
    }
}

/// signed zeros: the raw coordinate bits of every vertex (by UUID) must survive the Tds and the DelaunayTriangulation
/// route (the semantic fingerprint canonicalises -0.0, so it cannot see this)
fn signed_zero_route<const D: usize>(rep: &Report, cn: &Cn) {
    // unit simplex corners with -0.0 in place of 0.0 on alternating axes, plus an interior point
    let mut pts: Vec<[f64; D]> = Vec::new();
    pts.push(std::array::from_fn(|i| if i % 2 == 0 { -0.0 } else { 0.0 }));
    for a in 0..D {
        pts.push(std::array::from_fn(|i| if i == a { 2.0 } else if (i + a) % 2 == 0 { -0.0 } else { 0.0 }));
    }
    pts.push([0.25; D]);
    let vs: Vec<_> = pts.iter().enumerate().map(|(i, c)| alpha::mk_vertex::<i32, D>(*c, 1 + i as u128, Some(i as i32))).collect();
    let Ok(dt) = DelaunayTriangulation::<FastKernel<f64>, i32, (), D>::with_topology_guarantee(&FastKernel::default(), &vs, TopologyGuarantee::PLManifold) else { return };
    let bits = |it: &mut dyn Iterator<Item = (uuid::Uuid, Vec<u64>)>| { let mut v: Vec<(uuid::Uuid, Vec<u64>)> = it.collect(); v.sort(); v };
    let before = bits(&mut dt.vertices().map(|(_, v)| (v.uuid(), v.point().coords().iter().map(|x| x.to_bits()).collect())));
    cn.round_trips.fetch_add(1, Ordering::Relaxed);
    let replay = json!({"D": D, "route": "signed zeros", "points": pts.iter().map(|p| p.iter().map(|x| format!("{x:?}")).collect::<Vec<_>>()).collect::<Vec<_>>()});
    let Ok(doc) = serde_json::to_string(dt.tds()) else { return };
    match guarded(|| serde_json::from_str::<Tds<f64, i32, (), D>>(&doc)) {
        Ok(Ok(t)) => {
            let after = bits(&mut t.vertices().map(|(_, v)| (v.uuid(), v.point().coords().iter().map(|x| x.to_bits()).collect())));
            if after != before {
                rep.violation(Finding { signature: json!({"check": "coordinate_bits_changed", "route": "tds", "D": D}), description: "a JSON round trip changed the bits of a vertex coordinate (sign of zero)".into(), replay: replay.clone() });
            }
        }
        other => rep.violation(Finding { signature: json!({"check": "own_output_rejected", "route": "signed zeros", "D": D}), description: format!("the crate's own document with -0.0 coordinates does not load: {other:?}"), replay: replay.clone() }),
    }
}

/// cell data (u8 on every other cell) through the Tds route
fn cell_data_route<K: Kernel<D, Scalar = f64>, const D: usize>(rep: &Report, cn: &Cn, kname: &str, family: &str, pts: &[[f64; D]]) {
    let vs: Vec<_> = pts.iter().enumerate().map(|(i, c)| alpha::mk_vertex::<i32, D>(*c, 1 + i as u128, Some(i as i32))).collect();
    let Ok(mut dt) = DelaunayTriangulation::<K, i32, u8, D>::with_topology_guarantee(&K::default(), &vs, TopologyGuarantee::PLManifold) else { return };
    let keys: Vec<_> = dt.cells().map(|(k, _)| k).collect();
    for (i, k) in keys.iter().enumerate() {
        if i % 2 == 0 {
            if let Some(c) = dt.verif_tds_raw_mut().get_cell_by_key_mut(*k) {
                c.data = Some(i as u8 + 1);
            }
        }
    }
    cn.round_trips.fetch_add(1, Ordering::Relaxed);
    let replay = || json!({"D": D, "kernel": kname, "family": family, "route": "Tds with u8 cell data", "points": pts.iter().map(|p| p.to_vec()).collect::<Vec<_>>()});
    let Ok(doc) = serde_json::to_string(dt.tds()) else { return };
    match guarded(|| serde_json::from_str::<Tds<f64, i32, u8, D>>(&doc)) {
        Ok(Ok(back)) => {
            if Snap::of(dt.tds()).semantic(true) != Snap::of(&back).semantic(true) || &back != dt.tds() {
                rep.violation(Finding { signature: json!({"check": "round_trip_differs", "route": "cell_data", "D": D}), description: "round trip of a triangulation with cell data changed it".into(), replay: replay() });
            }
        }
        other => {
            rep.violation(Finding { signature: json!({"check": "own_output_rejected", "route": "cell_data", "D": D}), description: format!("round trip with cell data failed: {:?}", other.map(|r| r.map(|_| ()).map_err(|e| e.to_string()))), replay: replay() });
        }
    }
}

/// the DelaunayTriangulation (de)serialisation route exists for FastKernel<f64>, (), () only
fn dt_route<const D: usize>(rep: &Report, cn: &Cn, family: &str, pts: &[[f64; D]]) {
    let vs = mk_vertices(pts);
    let Ok(dt) = DelaunayTriangulation::<FastKernel<f64>, (), (), D>::with_topology_guarantee(&FastKernel::new(), &vs, TopologyGuarantee::PLManifold) else { return };
    cn.round_trips.fetch_add(1, Ordering::Relaxed);
    let replay = || json!({"D": D, "family": family, "route": "DelaunayTriangulation", "points": pts.iter().map(|p| p.to_vec()).collect::<Vec<_>>()});
    let Ok(doc) = serde_json::to_string(&dt) else {
        rep.violation(Finding { signature: json!({"check": "serialize_failed", "route": "dt"}), description: "serialising a DelaunayTriangulation failed".into(), replay: replay() });
        return;
    };
    match guarded(|| serde_json::from_str::<DelaunayTriangulation<FastKernel<f64>, (), (), D>>(&doc)) {
        Ok(Ok(back)) => {
            let (a, b) = (Snap::of(dt.tds()), Snap::of(back.tds()));
            if a.semantic(true) != b.semantic(true) || back.tds() != dt.tds() || back.validate().is_ok() != dt.validate().is_ok() {
                rep.violation(Finding { signature: json!({"check": "round_trip_differs", "route": "dt", "D": D}), description: "DelaunayTriangulation round trip changed the triangulation or its verdict".into(), replay: replay() });
            }
        }
        other => {
            rep.violation(Finding { signature: json!({"check": "own_output_rejected", "route": "dt", "D": D}), description: format!("DelaunayTriangulation round trip failed: {:?}", other.map(|r| r.map(|_| ()).map_err(|e| e.to_string()))), replay: replay() });
        }
    }
}

fn run_family<const D: usize>(rep: &Report, cn: &Cn, family: &str, alphabet: &[[f64; D]], sizes: std::ops::RangeInclusive<usize>, cap: usize, corrupt_every: usize, bounds: &mut Vec<Value>) {
    let mut sets: Vec<Vec<[f64; D]>> = Vec::new();
    for k in sizes.clone() {
        for s in subsets(alphabet.len(), k) {
            sets.push(s.iter().map(|&i| alphabet[i]).collect());
        }
    }
    sets.par_iter().enumerate().for_each(|(i, pts)| {
        let corrupt = corrupt_every > 0 && i % corrupt_every == 0;
        run_set::<FastKernel<f64>, D>(rep, cn, "fast", family, pts, alphabet, cap, corrupt);
        run_set::<RobustKernel<f64>, D>(rep, cn, "robust", family, pts, alphabet, cap, false);
        dt_route::<D>(rep, cn, family, pts);
    });
    bounds.push(json!({"D": D, "family": family, "alphabet": alphabet.len(), "subset_sizes": format!("{sizes:?}"), "point_sets": sets.len(), "closure_cap": cap, "corruption_menu_on_every_nth_set": corrupt_every}));
}

fn gp_points<const D: usize>(n: usize) -> Vec<[f64; D]> {
    let primes = [7i64, 11, 13, 17, 19];
    (0..n as i64).map(|i| std::array::from_fn(|j| { let mut v = 1i64; for _ in 0..=j { v = (v * (i + 2)) % primes[j]; } (v + if j == 0 { 3 * i } else { 0 }) as f64 })).collect()
}

fn main() {
    let args = parse_args();
    if let Some(p) = &args.replay {
        std::process::exit(vcore::replay::generic(p));
    }
    silence_panics();
    let rep = Report::new("C13", &args);
    let thorough = args.tier == Tier::Thorough;
    let x = usize::from(thorough);
    let cn = Cn { subjects: AtomicU64::new(0), round_trips: AtomicU64::new(0), followups: AtomicU64::new(0), corruptions: AtomicU64::new(0), corruptions_rejected: AtomicU64::new(0), corruptions_loaded: AtomicU64::new(0) };
    let mut bounds = Vec::new();
    let cap = if thorough { 100 } else { 8 };
    signed_zero_route::<2>(&rep, &cn);
    signed_zero_route::<3>(&rep, &cn);
    signed_zero_route::<4>(&rep, &cn);
    run_family::<2>(&rep, &cn, "G2(3) subsets", &alpha::grid::<2>(3), 3..=5 + x, cap, if thorough { 1 } else { 6 }, &mut bounds);
    run_family::<2>(&rep, &cn, "general position", &gp_points::<2>(8), 3..=6, cap, 0, &mut bounds);
    let mut c3 = alpha::grid::<3>(2);
    c3.push([0.5; 3]);
    run_family::<3>(&rep, &cn, "cube3+centre subsets", &c3, 4..=5 + x, cap, if thorough { 2 } else { 12 }, &mut bounds);
    run_family::<3>(&rep, &cn, "general position", &gp_points::<3>(7), 4..=6, cap, 0, &mut bounds);
    run_family::<4>(&rep, &cn, "cube alphabet subsets", &alpha::cube_alphabet::<4>().into_iter().take(8).collect::<Vec<_>>(), 5..=6, 4, 10, &mut bounds);
    run_family::<5>(&rep, &cn, "cube alphabet subsets", &alpha::cube_alphabet::<5>().into_iter().take(8).collect::<Vec<_>>(), 6..=6 + x, 3, 10, &mut bounds);
    let (rt, co) = (cn.round_trips.load(Ordering::Relaxed), cn.corruptions.load(Ordering::Relaxed));
    if rt < 1000 || co < 5000 {
        machinery_fail(&format!("C13 vacuous: {rt} round trips, {co} corruptions"));
    }
    let cov = json!({
        "evaluations": rt + co + cn.followups.load(Ordering::Relaxed),
        "distinct_nontrivial": cn.corruptions_loaded.load(Ordering::Relaxed) + cn.corruptions_rejected.load(Ordering::Relaxed),
        "rule": "subjects = every valid corpus state plus bootstrap-phase states (0..D vertices, no cells), a state with cell data and a state with vacated slots, with i32 vertex data, through the Tds route (+ from_tds) for both kernels and the DelaunayTriangulation route (FastKernel, (), ()); each round trip compared on the semantic fingerprint incl. cell UUIDs, ==, all validator verdicts and (general position) every single follow-up insert / removal; corruptions = every single-field mutation from the menu (uuid -> live / unknown / nil, entry dropped / duplicated, version +-1, coordinate -> null / \"Infinity\" / string / other / another vertex's point, cell vertex list entry removed / unknown / repeated / duplicated / other live vertex / swapped / copied from another cell, table entries added / dropped, sections emptied) of the documents of the first two subjects of every n-th point set; non-trivial = a corrupted document whose fate (rejected / loaded) was judged",
        "exhaustive": true,
        "subjects": cn.subjects.load(Ordering::Relaxed),
        "round_trips": rt,
        "follow_up_comparisons": cn.followups.load(Ordering::Relaxed),
        "corrupted_documents": co,
        "corrupted_rejected": cn.corruptions_rejected.load(Ordering::Relaxed),
        "corrupted_loaded_and_judged": cn.corruptions_loaded.load(Ordering::Relaxed),
        "bounds": bounds,
    });
    let code = rep.finish("fault_enumeration", cov, vec!["a loaded corrupted document is judged by the independent Level 1-2 reference only (the property's 'structurally consistent')".into()], args.part.as_deref());
    std::process::exit(code);
}
