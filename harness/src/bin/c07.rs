//! C07 — bistellar flips are manifold-preserving, exactly invertible edits.
//! In every state of the flip-graph closure of small point sets: all six entry points x every handle.

use delaunay::core::triangulation::TopologyGuarantee;
use delaunay::core::triangulation_data_structure::{CellKey, VertexKey};
use delaunay::geometry::kernel::{FastKernel, Kernel, RobustKernel};
use delaunay::triangulation::flips::{BistellarFlips, EdgeKey, FacetHandle, FlipInfo, RidgeHandle, TriangleHandle};
use rayon::prelude::*;
use serde_json::{Value, json};
use std::sync::atomic::{AtomicU64, Ordering};
use vcore::alpha::{self, mk_vertex, subsets};
use vcore::corpus::{self, flip_closure};
use vcore::dtx::{guarded, lookups_of, silence_panics, snap_of, variant_name};
use vcore::model::{self, DtI, Op};
use vcore::refval::{self, comb_invariants};
use vcore::report::{Finding, Report, Tier, machinery_fail, parse_args};

struct Cn {
    states: AtomicU64,
    transitions: AtomicU64,
    ok_flips: AtomicU64,
    inverses_checked: AtomicU64,
    capped: AtomicU64,
    recycled_seeds: AtomicU64,
    follow_ups: AtomicU64,
    key_inversions: AtomicU64,
}

/// Apply the real flip named by `op` and return the FlipInfo (model::apply hides it).
fn do_flip<K: Kernel<D, Scalar = f64>, const D: usize>(dt: &mut DtI<K, D>, op: &Op) -> Result<Result<FlipInfo<D>, String>, String> {
    guarded(|| {
        let r = match op {
            Op::K1Insert { cell, c, uid } => {
                let ck = model::nth_cell(dt, *cell).ok_or("NoSuchCell")?;
                dt.flip_k1_insert(ck, mk_vertex::<i32, D>(std::array::from_fn(|i| c[i]), 0x1_0000 + *uid as u128, Some(-2)))
            }
            Op::K1Remove { v } => dt.flip_k1_remove(model::nth_vertex(dt, *v).ok_or("NoSuchVertex")?),
            Op::K1RemoveStale => dt.flip_k1_remove(model::foreign_vertex_key()),
            Op::K2 { cell, facet } => dt.flip_k2(FacetHandle::new(model::nth_cell(dt, *cell).ok_or("NoSuchCell")?, *facet)),
            Op::K2Stale => dt.flip_k2(FacetHandle::new(model::foreign_cell_key(), 0)),
            Op::K3 { cell, a, b } => dt.flip_k3(RidgeHandle::new(model::nth_cell(dt, *cell).ok_or("NoSuchCell")?, *a, *b)),
            Op::K2Inv { v0, v1 } => dt.flip_k2_inverse_from_edge(EdgeKey::new(model::nth_vertex(dt, *v0).ok_or("NoSuchVertex")?, model::nth_vertex(dt, *v1).ok_or("NoSuchVertex")?)),
            Op::K3Inv { v0, v1, v2 } => dt.flip_k3_inverse_from_triangle(TriangleHandle::new(
                model::nth_vertex(dt, *v0).ok_or("NoSuchVertex")?,
                model::nth_vertex(dt, *v1).ok_or("NoSuchVertex")?,
                model::nth_vertex(dt, *v2).ok_or("NoSuchVertex")?,
            )),
            _ => return Err("not a flip".to_string()),
        };
        r.map_err(|e| variant_name(&e))
    })
}

/// The inverse move addressed through the face the flip created.
fn apply_inverse<K: Kernel<D, Scalar = f64>, const D: usize>(dt: &mut DtI<K, D>, info: &FlipInfo<D>, removed_vertex: Option<delaunay::core::vertex::Vertex<f64, i32, D>>) -> Result<Result<FlipInfo<D>, String>, String> {
    let face: Vec<VertexKey> = info.inserted_face_vertices.iter().copied().collect();
    let m = face.len();
    guarded(|| {
        let new_cell: CellKey = *info.new_cells.first().ok_or("no new cells")?;
        let cv: Vec<VertexKey> = dt.tds().get_cell(new_cell).ok_or("new cell missing")?.vertices().to_vec();
        let omitted: Vec<u8> = cv.iter().enumerate().filter(|(_, k)| !face.contains(k)).map(|(i, _)| i as u8).collect();
        let r = if m == D + 1 {
            let v = removed_vertex.ok_or("no vertex to re-insert")?;
            dt.flip_k1_insert(new_cell, v)
        } else if m == D {
            dt.flip_k2(FacetHandle::new(new_cell, omitted[0]))
        } else if m == D - 1 && D >= 3 {
            dt.flip_k3(RidgeHandle::new(new_cell, omitted[0], omitted[1]))
        } else if m == 1 {
            dt.flip_k1_remove(face[0])
        } else if m == 2 {
            dt.flip_k2_inverse_from_edge(EdgeKey::new(face[0], face[1]))
        } else if m == 3 {
            dt.flip_k3_inverse_from_triangle(TriangleHandle::new(face[0], face[1], face[2]))
        } else {
            return Err(format!("no public inverse for an inserted face of {m} vertices in D={D}"));
        };
        r.map_err(|e| variant_name(&e))
    })
}

fn check_state<K: Kernel<D, Scalar = f64>, const D: usize>(rep: &Report, cn: &Cn, kname: &str, family: &str, pts: &[[f64; D]], dt: &DtI<K, D>, k1_points: &[[f64; D]]) {
    let before = snap_of(dt);
    let inv_before = comb_invariants(&before);
    let cells_before = before.cell_sets();
    let mut last_ok: Option<Op> = None;
    for op in model::flip_ops(dt, k1_points, 7000) {
        cn.transitions.fetch_add(1, Ordering::Relaxed);
        let mut d2 = dt.clone();
        let removed_vertex = if let Op::K1Remove { v } = &op { dt.vertices().nth(*v).map(|(_, x)| *x) } else { None };
        let r = do_flip(&mut d2, &op);
        let replay = |extra: Value| json!({"D": D, "kernel": kname, "family": family, "points": pts.iter().map(|p| p.to_vec()).collect::<Vec<_>>(), "state_cells": corpus::cells_as_indices(&before, pts), "op": op, "detail": extra});
        let info = match r {
            Err(_panic) => {
                rep.outcome("panic");
                continue;
            }
            Ok(Err(e)) => {
                rep.outcome(&format!("{}:Err({e})", opk(&op)));
                // "arbitrary sequences of flips" include refused ones: after a refusal that is raised late (the flip
                // context existed and the replacement cells were being examined), the next successful flip on the very
                // same object must still leave a structurally valid complex with the prescribed cell count
                if ["DegenerateCell", "InsertedSimplexAlreadyExists", "DuplicateCell", "NonManifoldFacet"].iter().any(|c| e.contains(c)) {
                    if let Some(follow) = last_ok.clone() {
                        let cells0 = dt.number_of_cells() as i64;
                        if let Ok(Ok(info2)) = do_flip(&mut d2, &follow) {
                            cn.follow_ups.fetch_add(1, Ordering::Relaxed);
                            let after = snap_of(&d2);
                            let l1 = refval::level1(&after);
                            let lk = lookups_of(&d2, &after);
                            let l2 = if l1.is_empty() { refval::level2(&after, Some(&lk)) } else { vec![] };
                            let k2 = info2.kind.k() as i64;
                            let want = (D as i64 + 2 - k2) - k2;
                            let delta = d2.number_of_cells() as i64 - cells0;
                            if let Some(bad) = l1.first().or(l2.first()) {
                                rep.violation(Finding { signature: json!({"check": "valid_after_refused_then_successful_flip", "D": D, "refused": opk(&op), "error": e}), description: format!("{op:?} was refused ({e}); the following successful {follow:?} on the same object leaves a structurally invalid complex: {bad}"), replay: replay(json!({"then": follow})) });
                            } else if delta != want {
                                rep.violation(Finding { signature: json!({"check": "cell_count_after_refused_then_successful_flip", "D": D, "refused": opk(&op), "error": e}), description: format!("{op:?} was refused ({e}); after the following successful {follow:?} the cell count changed by {delta} instead of {want}"), replay: replay(json!({"then": follow})) });
                            }
                        }
                    }
                }
                continue;
            }
            Ok(Ok(info)) => info,
        };
        last_ok = Some(op.clone());
        cn.ok_flips.fetch_add(1, Ordering::Relaxed);
        let k = info.kind.k();
        rep.outcome(&format!("{}:Ok(k={k},{:?})", opk(&op), info.direction));
        let sig = |check: &str| json!({"check": check, "D": D, "op": opk(&op), "k": k, "direction": format!("{:?}", info.direction)});
        let after = snap_of(&d2);
        // element + structural levels
        let l1 = refval::level1(&after);
        let lk = lookups_of(&d2, &after);
        let l2 = if l1.is_empty() { refval::level2(&after, Some(&lk)) } else { vec![] };
        if let Some(e) = l1.first().or(l2.first()) {
            rep.violation(Finding { signature: sig("structural_validity"), description: format!("{op:?} reported success but the result fails the element/structural reference: {e}"), replay: replay(json!(null)) });
            continue;
        }
        // combinatorial manifold invariants preserved
        let inv_after = comb_invariants(&after);
        let mut broken: Vec<&str> = Vec::new();
        if inv_before.facet_degrees_ok && !inv_after.facet_degrees_ok {
            broken.push("facet degrees");
        }
        if inv_before.closed_boundary && !inv_after.closed_boundary {
            broken.push("closed boundary");
        }
        if inv_before.components != inv_after.components {
            broken.push("connectedness");
        }
        if inv_before.chi != inv_after.chi {
            broken.push("Euler characteristic");
        }
        if inv_before.boundary_facets != inv_after.boundary_facets && (2..=D).contains(&k) {
            broken.push("boundary facet set");
        }
        if (2..=D).contains(&k) && inv_before.vertex_set != inv_after.vertex_set {
            broken.push("vertex set");
        }
        if !broken.is_empty() {
            rep.violation(Finding { signature: json!({"check": "invariants_preserved", "D": D, "op": opk(&op), "k": k, "broken": broken}), description: format!("{op:?} reported success but changed: {broken:?}"), replay: replay(json!(null)) });
            continue;
        }
        // cell count and FlipInfo accounting
        let expect_new = D + 2 - k;
        let delta = after.n_cells() as i64 - before.n_cells() as i64;
        let new_exist = info.new_cells.iter().all(|c| d2.tds().contains_cell(*c));
        let removed_gone = info.removed_cells.iter().all(|c| !d2.tds().contains_cell(*c));
        let removed_existed = info.removed_cells.iter().all(|c| dt.tds().contains_cell(*c));
        let face: Vec<VertexKey> = info.inserted_face_vertices.iter().copied().collect();
        let mut star: Vec<CellKey> = d2.cells().filter(|(_, c)| face.iter().all(|v| c.contains_vertex(*v))).map(|(k, _)| k).collect();
        star.sort();
        let mut newc: Vec<CellKey> = info.new_cells.iter().copied().collect();
        newc.sort();
        if delta != expect_new as i64 - k as i64 || info.removed_cells.len() != k || info.new_cells.len() != expect_new || !new_exist || !removed_gone || !removed_existed || star != newc || face.len() != k {
            rep.violation(Finding {
                signature: sig("flipinfo_accounting"),
                description: format!(
                    "{op:?}: k={k}: cell delta {delta} (expected {}), removed {} (expected {k}), new {} (expected {expect_new}), new exist={new_exist}, removed gone={removed_gone}, star of inserted face has {} cells vs {} new cells, inserted face has {} vertices",
                    expect_new as i64 - k as i64,
                    info.removed_cells.len(),
                    info.new_cells.len(),
                    star.len(),
                    newc.len(),
                    face.len()
                ),
                replay: replay(json!(null)),
            });
            continue;
        }
        // inverse move restores the identical set of cells
        let mut d3 = d2.clone();
        match apply_inverse(&mut d3, &info, removed_vertex) {
            Ok(Ok(_)) => {
                cn.inverses_checked.fetch_add(1, Ordering::Relaxed);
                let restored = snap_of(&d3);
                if restored.cell_sets() != cells_before || comb_invariants(&restored).vertex_set != inv_before.vertex_set {
                    rep.violation(Finding { signature: sig("inverse_restores"), description: format!("{op:?} succeeded; the inverse move on the created face succeeded but did not restore the original set of cells"), replay: replay(json!(null)) });
                }
            }
            Ok(Err(e)) => {
                // The inverse may legitimately be refused only for geometric reasons (degenerate / existing simplex never apply: the
                // original cells are the witness). Any refusal is a violation of "exactly invertible".
                rep.violation(Finding { signature: json!({"check": "inverse_refused", "D": D, "op": opk(&op), "k": k, "error": e}), description: format!("{op:?} succeeded but the inverse move on the created face was refused: {e}"), replay: replay(json!(null)) });
            }
            Err(_panic) => rep.outcome("inverse:panic"),
        }
    }
}

fn opk(op: &Op) -> String {
    let s = format!("{op:?}");
    s.split(|c: char| c == ' ' || c == '(' || c == '{').next().unwrap_or("?").to_string()
}

fn run_seed<K: Kernel<D, Scalar = f64>, const D: usize>(rep: &Report, cn: &Cn, kname: &str, family: &str, pts: &[[f64; D]], cap: usize) {
    let Some(seed) = corpus::build::<K, D>(pts, TopologyGuarantee::PLManifold) else { return };
    let cl = flip_closure(&seed, true, cap);
    if cl.capped {
        cn.capped.fetch_add(1, Ordering::Relaxed);
    }
    // k=1 insertion points: the barycentre of the first cell of each state and one far point are formed per state below
    for (dt, _valid, _dist) in &cl.states {
        cn.states.fetch_add(1, Ordering::Relaxed);
        let k1: Vec<[f64; D]> = vec![std::array::from_fn(|i| 0.3 + 0.05 * i as f64), [100.0; D]];
        check_state(rep, cn, kname, family, pts, dt, &k1);
    }
    if pts.len() == D + 2 {
        rep.sample(json!({"D": D, "kernel": kname, "family": family, "points": pts.iter().map(|p| p.to_vec()).collect::<Vec<_>>(), "closure_states": cl.states.len()}), 8);
    }
    // Same point set, but built so that every vertex slot was occupied and vacated before (corpus::build_recycled):
    // key order (index, version) and raw key value order then disagree for every pair of vertices, which never
    // happens on a freshly built triangulation.
    // (thorough: also with the points listed in reverse, which puts other vertices into the initial simplex, whose
    // slots are the only ones that keep version 1)
    let mut orders: Vec<Vec<[f64; D]>> = vec![pts.to_vec()];
    if cap > 400 {
        orders.push(pts.iter().rev().copied().collect());
    }
    for order in &orders {
        let Some(dt) = corpus::build_recycled::<K, D>(order, TopologyGuarantee::PLManifold) else { continue };
        let fam = format!("{family} (recycled vertex slots)");
        let cl = flip_closure(&dt, true, cap);
        if cl.capped {
            cn.capped.fetch_add(1, Ordering::Relaxed);
        }
        cn.recycled_seeds.fetch_add(1, Ordering::Relaxed);
        cn.key_inversions.fetch_add(corpus::key_order_inversions(&dt) as u64, Ordering::Relaxed);
        // stored coordinates may be perturbed: identify state cells by the stored points
        let stored: Vec<[f64; D]> = dt.vertices().map(|(_, v)| *v.point().coords()).collect();
        for (st, _valid, _dist) in &cl.states {
            cn.states.fetch_add(1, Ordering::Relaxed);
            let k1: Vec<[f64; D]> = vec![std::array::from_fn(|i| 0.35 + 0.05 * i as f64), [100.0; D]];
            check_state(rep, cn, kname, &fam, &stored, st, &k1);
        }
    }
}

fn run_family<const D: usize>(rep: &Report, cn: &Cn, family: &str, alphabet: &[[f64; D]], sizes: std::ops::RangeInclusive<usize>, cap: usize, bounds: &mut Vec<Value>) {
    let mut sets: Vec<Vec<[f64; D]>> = Vec::new();
    for k in sizes.clone() {
        for s in subsets(alphabet.len(), k) {
            sets.push(s.iter().map(|&i| alphabet[i]).collect());
        }
    }
    sets.par_iter().for_each(|pts| {
        run_seed::<FastKernel<f64>, D>(rep, cn, "fast", family, pts, cap);
        run_seed::<RobustKernel<f64>, D>(rep, cn, "robust", family, pts, cap);
    });
    bounds.push(json!({"D": D, "family": family, "alphabet": alphabet.len(), "subset_sizes": format!("{sizes:?}"), "point_sets": sets.len(), "kernels": 2, "closure_cap": cap}));
}

fn main() {
    let args = parse_args();
    if let Some(p) = &args.replay {
        std::process::exit(vcore::replay::generic(p));
    }
    silence_panics();
    let rep = Report::new("C07", &args);
    let thorough = args.tier == Tier::Thorough;
    let x = usize::from(thorough);
    let cn = Cn { states: AtomicU64::new(0), transitions: AtomicU64::new(0), ok_flips: AtomicU64::new(0), inverses_checked: AtomicU64::new(0), capped: AtomicU64::new(0), recycled_seeds: AtomicU64::new(0), follow_ups: AtomicU64::new(0), key_inversions: AtomicU64::new(0) };
    let mut bounds = Vec::new();
    let cap = if thorough { 3000 } else { 400 };
    run_family::<2>(&rep, &cn, "G2(3) subsets", &alpha::grid::<2>(3), 4..=6 + x, cap, &mut bounds);
    run_family::<2>(&rep, &cn, "moment curve", &alpha::moment_points::<2>(7), 4..=6 + x, cap, &mut bounds);
    run_family::<3>(&rep, &cn, "cube3 subsets", &alpha::grid::<3>(2), 5..=6 + x, cap, &mut bounds);
    run_family::<3>(&rep, &cn, "moment curve", &alpha::moment_points::<3>(7), 5..=6 + x, cap, &mut bounds);
    run_family::<4>(&rep, &cn, "cube alphabet subsets", &alpha::cube_alphabet::<4>(), 6..=8, cap, &mut bounds);
    run_family::<4>(&rep, &cn, "moment curve", &alpha::moment_points::<4>(9), 6..=8 + x, cap, &mut bounds);
    run_family::<5>(&rep, &cn, "cube alphabet subsets", &alpha::cube_alphabet::<5>(), 7..=7 + x, cap, &mut bounds);
    run_family::<5>(&rep, &cn, "moment curve", &alpha::moment_points::<5>(9 + x), 7..=8 + x, cap, &mut bounds);
    let okf = cn.ok_flips.load(Ordering::Relaxed);
    if okf < 1000 {
        machinery_fail(&format!("C07 vacuous: only {okf} successful flips"));
    }
    let cov = json!({
        "states": cn.states.load(Ordering::Relaxed),
        "transitions": cn.transitions.load(Ordering::Relaxed),
        "traces_validated_against_impl": cn.transitions.load(Ordering::Relaxed),
        "successful_flips_judged": okf,
        "inverse_moves_checked": cn.inverses_checked.load(Ordering::Relaxed),
        "exhaustive": cn.capped.load(Ordering::Relaxed) == 0,
        "closures_capped": cn.capped.load(Ordering::Relaxed),
        "successful_flips_judged_after_a_refused_flip_on_the_same_object": cn.follow_ups.load(Ordering::Relaxed),
        "seeds_with_recycled_vertex_slots": cn.recycled_seeds.load(Ordering::Relaxed),
        "vertex_pairs_with_inverted_key_order_in_those_seeds": cn.key_inversions.load(Ordering::Relaxed),
        "rule": "in every state of the (combinatorial, cap-bounded) closure of each small point set under k>=2 flips: every handle that can be formed for the six Edit-API entry points (every (cell, facet index) incl. D+1 and 255, every ridge pair incl. equal indices, every vertex pair / triple / vertex, stale keys, k=1 insertion at an interior and a far point); every successful flip is judged (L1-L2 reference, invariants preserved, FlipInfo accounting, inverse restores the cell set)",
        "bounds": bounds,
    });
    let code = rep.finish("model_checking", cov, vec!["closure states are merged on their cell sets".into()], args.part.as_deref());
    std::process::exit(code);
}
