//! C04 — a passing Delaunay check means the empty-circumsphere property really holds.
//! States: the complete flip-graph closure (valid triangulations) of every small point set, plus
//! constructed states; oracle: exact empty-circumsphere outside the tolerance band.

use delaunay::core::triangulation::TopologyGuarantee;
use delaunay::core::util::delaunay_validation::find_delaunay_violations;
use delaunay::geometry::kernel::{FastKernel, Kernel, RobustKernel};
use rayon::prelude::*;
use serde_json::{Value, json};
use std::sync::atomic::{AtomicU64, Ordering};
use vcore::alpha::{self, subsets};
use vcore::corpus::{self, flip_closure, general_position};
use vcore::dtx::{guarded, silence_panics, snap_of};
use vcore::model::DtI;
use vcore::refval;
use vcore::report::{Finding, Report, Tier, machinery_fail, parse_args};

struct Cn {
    seeds: AtomicU64,
    states: AtomicU64,
    valid_states: AtomicU64,
    transitions: AtomicU64,
    non_delaunay_states: AtomicU64,
    gp_delaunay_states: AtomicU64,
    verdicts: AtomicU64,
    capped: AtomicU64,
    recycled_seeds: AtomicU64,
}

fn check_state<K: Kernel<D, Scalar = f64>, const D: usize>(rep: &Report, cn: &Cn, kname: &str, family: &str, pts: &[[f64; D]], gp: bool, dt: &DtI<K, D>, dist: usize) {
    let snap = snap_of(dt);
    let certain = !refval::delaunay_violations(&snap, true).is_empty();
    let strictly = refval::strictly_delaunay(&snap);
    if certain {
        cn.non_delaunay_states.fetch_add(1, Ordering::Relaxed);
    }
    if gp && strictly {
        cn.gp_delaunay_states.fetch_add(1, Ordering::Relaxed);
    }
    let mech = if certain { refval::violation_mechanism(&snap) } else { "-" };
    let replay = || json!({"D": D, "kernel": kname, "family": family, "points": pts.iter().map(|p| p.to_vec()).collect::<Vec<_>>(), "cells": corpus::cells_as_indices(&snap, pts), "flip_distance_from_constructed": dist});
    let apis: Vec<(&str, Result<bool, String>)> = vec![
        ("is_valid", guarded(|| dt.is_valid().is_ok())),
        ("validate", guarded(|| dt.validate().is_ok())),
        ("validation_report", guarded(|| dt.validation_report().is_ok())),
        ("is_delaunay_via_flips", guarded(|| dt.is_delaunay_via_flips().is_ok())),
        ("find_delaunay_violations(empty)", guarded(|| find_delaunay_violations(dt.tds(), None).map(|v| v.is_empty()).unwrap_or(false))),
    ];
    // the finder restricted to a list of cell keys must report exactly the listed live cells that the unrestricted
    // finder reports, wherever stale / foreign keys sit in the list (documented: missing cells are skipped)
    {
        let live: Vec<delaunay::core::triangulation_data_structure::CellKey> = dt.cells().map(|(k, _)| k).collect();
        let stale = vcore::model::foreign_cell_key();
        let all = guarded(|| find_delaunay_violations(dt.tds(), None).map(|v| { let mut v: Vec<u64> = v.iter().map(|k| vcore::snap::kffi(*k)).collect(); v.sort_unstable(); v }).map_err(|e| format!("{e:?}")));
        let mut lists: Vec<(&str, Vec<_>)> = Vec::new();
        lists.push(("live", live.clone()));
        lists.push(("stale_first", std::iter::once(stale).chain(live.iter().copied()).collect()));
        lists.push(("stale_last", live.iter().copied().chain(std::iter::once(stale)).collect()));
        let mut mid = live.clone();
        mid.insert(live.len() / 2, stale);
        lists.push(("stale_middle", mid));
        lists.push(("reversed", live.iter().rev().copied().collect()));
        for (name, list) in lists {
            let got = guarded(|| find_delaunay_violations(dt.tds(), Some(&list)).map(|v| { let mut v: Vec<u64> = v.iter().map(|k| vcore::snap::kffi(*k)).collect(); v.sort_unstable(); v.dedup(); v }).map_err(|e| format!("{e:?}")));
            cn.verdicts.fetch_add(1, Ordering::Relaxed);
            if got != all {
                rep.violation(Finding {
                    signature: json!({"check": "finder_list_inconsistent", "list": name, "D": D}),
                    description: format!("find_delaunay_violations over the key list '{name}' (all live cells{}) reports {got:?}, over the whole triangulation {all:?}", if name.starts_with("stale") { " plus one foreign key" } else { "" }),
                    replay: replay(),
                });
            }
        }
    }
    for (api, r) in apis {
        cn.verdicts.fetch_add(1, Ordering::Relaxed);
        match r {
            Err(p) => {
                rep.outcome(&format!("{api}:panic"));
                let _ = p;
            }
            Ok(accepts) => {
                rep.outcome(&format!("{api}:{}", if accepts { "accept" } else { "reject" }));
                if accepts && certain {
                    rep.violation(Finding {
                        signature: json!({"check": "soundness", "api_group": if api.starts_with("find_") { "brute_force_finder" } else { "flip_predicate_verifier" }, "D": D, "family": family, "mechanism": mech}),
                        description: format!("{api} accepts a structurally valid triangulation in which a vertex lies strictly inside a cell's circumsphere (exact, outside the tolerance band); flip distance {dist} from the constructed triangulation"),
                        replay: replay(),
                    });
                }
                if !accepts && gp && strictly {
                    rep.violation(Finding {
                        signature: json!({"check": "completeness", "api_group": if api.starts_with("find_") { "brute_force_finder" } else { "flip_predicate_verifier" }, "D": D, "family": family}),
                        description: format!("{api} rejects a genuinely (strictly) Delaunay triangulation of a point set in general position"),
                        replay: replay(),
                    });
                }
            }
        }
    }
}

fn run_seed<K: Kernel<D, Scalar = f64>, const D: usize>(rep: &Report, cn: &Cn, kname: &str, family: &str, pts: &[[f64; D]], cap: usize) {
    let Some(seed) = corpus::build::<K, D>(pts, TopologyGuarantee::PLManifold) else {
        rep.outcome("seed:Err");
        return;
    };
    cn.seeds.fetch_add(1, Ordering::Relaxed);
    let gp = general_position(pts);
    let cl = flip_closure(&seed, false, cap);
    cn.transitions.fetch_add(cl.transitions, Ordering::Relaxed);
    if cl.capped {
        cn.capped.fetch_add(1, Ordering::Relaxed);
    }
    for (dt, valid, dist) in &cl.states {
        cn.states.fetch_add(1, Ordering::Relaxed);
        if !*valid {
            continue;
        }
        cn.valid_states.fetch_add(1, Ordering::Relaxed);
        check_state(rep, cn, kname, family, pts, gp, dt, *dist);
    }
    // the same point set with recycled vertex slots (keys whose index order and raw order disagree): only when the
    // incremental build stored the input coordinates unperturbed, so that `pts` still describes the state
    if let Some(rdt) = corpus::build_recycled::<K, D>(pts, TopologyGuarantee::PLManifold) {
        let unperturbed = rdt.vertices().all(|(_, v)| pts.iter().any(|p| p == v.point().coords()));
        if unperturbed {
            cn.recycled_seeds.fetch_add(1, Ordering::Relaxed);
            let cl = flip_closure(&rdt, false, cap);
            cn.transitions.fetch_add(cl.transitions, Ordering::Relaxed);
            for (dt, valid, dist) in &cl.states {
                cn.states.fetch_add(1, Ordering::Relaxed);
                if *valid {
                    cn.valid_states.fetch_add(1, Ordering::Relaxed);
                    check_state(rep, cn, kname, family, pts, gp, dt, *dist);
                }
            }
        }
    }
    if pts.len() == D + 3 && pts[0][0] == 0.0 {
        rep.sample(json!({"D": D, "kernel": kname, "family": family, "points": pts.iter().map(|p| p.to_vec()).collect::<Vec<_>>(), "closure_states": cl.states.len(), "valid": cl.states.iter().filter(|s| s.1).count(), "general_position": gp}), 10);
    }
}

fn run_family<const D: usize>(rep: &Report, cn: &Cn, family: &str, alphabet: &[[f64; D]], sizes: std::ops::RangeInclusive<usize>, cap: usize, bounds: &mut Vec<Value>) {
    let mut sets: Vec<Vec<[f64; D]>> = Vec::new();
    for k in sizes.clone() {
        for s in subsets(alphabet.len(), k) {
            sets.push(s.iter().map(|&i| alphabet[i]).collect());
        }
    }
    sets.par_iter().for_each(|pts| {
        run_seed::<FastKernel<f64>, D>(rep, cn, "fast", family, pts, cap);
        run_seed::<RobustKernel<f64>, D>(rep, cn, "robust", family, pts, cap);
    });
    bounds.push(json!({"D": D, "family": family, "alphabet": alphabet.len(), "subset_sizes": format!("{sizes:?}"), "point_sets": sets.len(), "kernels": 2, "closure_cap": cap}));
}

/// small integer points in general position (checked exactly at start-up): a skewed lattice walk
fn gp_points<const D: usize>(n: usize) -> Vec<[f64; D]> {
    // p_i = (i, i^2 mod 7 + i/3, i^3 mod 11, ...) chosen to avoid cospherical/coplanar subsets; verified below
    let primes = [7i64, 11, 13, 17, 19];
    (0..n as i64)
        .map(|i| {
            std::array::from_fn(|j| {
                let mut v = 1i64;
                for _ in 0..=j {
                    v = (v * (i + 2)) % primes[j];
                }
                (v + if j == 0 { 3 * i } else { 0 }) as f64
            })
        })
        .collect()
}

fn main() {
    let args = parse_args();
    if let Some(p) = &args.replay {
        std::process::exit(vcore::replay::generic(p));
    }
    silence_panics();
    let rep = Report::new("C04", &args);
    vcore::exact::self_check();
    let thorough = args.tier == Tier::Thorough;
    let x = usize::from(thorough);
    let cn = Cn { seeds: AtomicU64::new(0), states: AtomicU64::new(0), valid_states: AtomicU64::new(0), transitions: AtomicU64::new(0), non_delaunay_states: AtomicU64::new(0), gp_delaunay_states: AtomicU64::new(0), verdicts: AtomicU64::new(0), capped: AtomicU64::new(0), recycled_seeds: AtomicU64::new(0) };
    let mut bounds = Vec::new();
    let cap = if thorough { 50_000 } else { 6000 };
    // degenerate grids
    run_family::<2>(&rep, &cn, "G2(3) subsets", &alpha::grid::<2>(3), 4..=7 + x, cap, &mut bounds);
    if thorough {
        run_family::<2>(&rep, &cn, "G2(4) subsets", &alpha::grid::<2>(4), 4..=7, cap, &mut bounds);
    }
    run_family::<3>(&rep, &cn, "cube3 subsets", &alpha::grid::<3>(2), 5..=8, cap, &mut bounds);
    let probe3: Vec<[f64; 3]> = vec![[0.0, 0.0, 0.0], [4.0, 0.0, 1.0], [0.0, 4.0, 1.0], [1.0, 1.0, 5.0], [2.0, 2.0, 2.0], [3.0, 3.0, 0.0], [1.0, 2.0, 1.0], [3.0, 1.0, 3.0]];
    run_family::<3>(&rep, &cn, "integer probe set", &probe3, 6..=8, cap, &mut bounds);
    let mut c3 = alpha::grid::<3>(2);
    c3.truncate(6);
    c3.push([0.5; 3]);
    c3.push([0.25, 0.5, 0.75]);
    run_family::<3>(&rep, &cn, "cube3 part + interior points", &c3, 5..=7, cap, &mut bounds);
    run_family::<4>(&rep, &cn, "cube alphabet subsets", &alpha::cube_alphabet::<4>(), 6..=7 + x, cap, &mut bounds);
    run_family::<5>(&rep, &cn, "cube alphabet subsets", &alpha::cube_alphabet::<5>(), 7..=7 + x, cap, &mut bounds);
    // general position families
    let g2 = gp_points::<2>(9 + x);
    let g3 = gp_points::<3>(8);
    let g4 = gp_points::<4>(8);
    let g5 = gp_points::<5>(8 + x);
    run_family::<2>(&rep, &cn, "general position", &g2, 4..=8, cap, &mut bounds);
    run_family::<3>(&rep, &cn, "general position", &g3, 5..=8, cap, &mut bounds);
    run_family::<4>(&rep, &cn, "general position", &g4, 6..=7 + x, cap, &mut bounds);
    run_family::<5>(&rep, &cn, "general position", &g5, 7..=8, cap, &mut bounds);

    let (nd, gpd) = (cn.non_delaunay_states.load(Ordering::Relaxed), cn.gp_delaunay_states.load(Ordering::Relaxed));
    if nd < 100 || gpd < 50 {
        machinery_fail(&format!("C04 vacuous: {nd} non-Delaunay states, {gpd} general-position Delaunay states"));
    }
    let cov = json!({
        "states": cn.states.load(Ordering::Relaxed),
        "transitions": cn.transitions.load(Ordering::Relaxed),
        "traces_validated_against_impl": cn.transitions.load(Ordering::Relaxed),
        "exhaustive": cn.capped.load(Ordering::Relaxed) == 0,
        "seed_point_sets": cn.seeds.load(Ordering::Relaxed),
        "valid_states_judged": cn.valid_states.load(Ordering::Relaxed),
        "certainly_non_delaunay_states": nd,
        "general_position_strictly_delaunay_states": gpd,
        "verdicts_compared": cn.verdicts.load(Ordering::Relaxed),
        "seeds_rebuilt_with_recycled_vertex_slots": cn.recycled_seeds.load(Ordering::Relaxed),
        "closures_capped": cn.capped.load(Ordering::Relaxed),
        "rule": "for every subset of the per-dimension alphabets (degenerate grids and an exactly verified general-position family) the complete closure under the k>=2 Edit-API flips is computed by BFS with the real flip calls (state identity = set of cells as vertex sets); every state that passes the independent L1-L3 + convex-embedding reference is judged: accept => no certain exact violation; general position and strictly Delaunay => not rejected",
        "bounds": bounds,
    });
    let code = rep.finish("model_checking", cov, vec!["exact oracle self-check passed".into(), "closure states are merged on their cell sets (verdicts are functions of the complex, not of storage order)".into()], args.part.as_deref());
    std::process::exit(code);
}
