//! C02 — incremental insertion never leaves the validity stack broken.
//! Explicit-state BFS over insertion histories (plus <=1 policy change) on the real triangulation.

use delaunay::core::delaunay_triangulation::{ConstructionOptions, DelaunayCheckPolicy, DelaunayTriangulation};
use delaunay::core::triangulation::TopologyGuarantee;
use delaunay::geometry::kernel::{FastKernel, Kernel, RobustKernel};
use serde_json::{Value, json};
use std::collections::HashSet;
use std::num::NonZeroUsize;
use vcore::alpha::{self, mk_vertex};
use vcore::dtx::{dump_digest, reference_verdict, silence_panics};
use vcore::explore::{Caps, Model, Stats, bfs};
use vcore::model::{self, DtI, Op, Outcome};
use vcore::refval;
use vcore::report::{Finding, Report, Tier, machinery_fail, parse_args};

struct St<K: Kernel<D, Scalar = f64>, const D: usize> {
    dt: DtI<K, D>,
    policy_changes: u8,
}

struct M<'a, K, const D: usize> {
    rep: &'a Report,
    kname: &'static str,
    label: String,
    alphabet: Vec<[f64; D]>,
    seed_pts: Vec<[f64; D]>,
    policy_bound: u8,
    policy_until_vertices: usize,
    /// "latent violation, then switch the checks on" family: histories start under repair policy Never; once a
    /// state is not Delaunay (and has at most `switch_max_vertices` vertices) the repair policy is set to
    /// EveryInsertion and the check policy to EveryN(1), followed by up to two further insertions
    switch_mode: bool,
    switch_max_vertices: usize,
    latent: &'a std::sync::atomic::AtomicU64,
    checked_refusals: &'a std::sync::atomic::AtomicU64,
    _k: std::marker::PhantomData<K>,
}

fn policies_label<K: Kernel<D, Scalar = f64>, const D: usize>(dt: &DtI<K, D>) -> String {
    format!("{:?}/{:?}/{:?}/{:?}", dt.validation_policy(), dt.topology_guarantee(), dt.delaunay_repair_policy(), dt.delaunay_check_policy())
}

impl<'a, K: Kernel<D, Scalar = f64> + Sync + Send, const D: usize> M<'a, K, D> {
    fn replay_json(&self, seed: &str, hist: &[Op], op: &Op) -> Value {
        let mut h: Vec<Op> = hist.to_vec();
        h.push(op.clone());
        json!({"D": D, "kernel": self.kname, "family": self.label, "seed": seed, "alphabet": self.alphabet.iter().map(|p| p.to_vec()).collect::<Vec<_>>(), "seed_points": self.seed_pts.iter().map(|p| p.to_vec()).collect::<Vec<_>>(), "ops": h})
    }
}

impl<'a, K: Kernel<D, Scalar = f64> + Sync + Send, const D: usize> Model for M<'a, K, D>
where
    DtI<K, D>: Send + Sync,
{
    type State = St<K, D>;
    type Op = Op;
    fn key(&self, s: &St<K, D>) -> u128 {
        dump_digest(&s.dt) ^ ((s.policy_changes as u128) << 120)
    }
    fn ops(&self, s: &St<K, D>, hist: &[Op]) -> Vec<Op> {
        let mut v = Vec::new();
        let depth = hist.len() as u32;
        if self.switch_mode {
            // phases (kept in policy_changes): 0 = under repair Never; 1 = repair switched on; 2 = check switched on;
            // 3, 4 = one / two insertions made with both on
            match s.policy_changes {
                0 => {
                    if s.dt.number_of_vertices() < self.switch_max_vertices {
                        for p in 0..self.alphabet.len() {
                            v.push(Op::Insert { p, uid: depth * 64 + p as u32, stats: false });
                        }
                    }
                    if s.dt.number_of_cells() > 0 {
                        let snap = vcore::dtx::snap_of(&s.dt);
                        if !refval::delaunay_violations(&snap, true).is_empty() {
                            self.latent.fetch_add(1, std::sync::atomic::Ordering::Relaxed);
                            v.push(Op::SetRP(0));
                        }
                    }
                }
                1 => v.push(Op::SetCP(1)),
                2 | 3 => {
                    for p in 0..self.alphabet.len() {
                        v.push(Op::Insert { p, uid: depth * 64 + p as u32, stats: false });
                        v.push(Op::Insert { p, uid: depth * 64 + p as u32, stats: true });
                    }
                }
                _ => {}
            }
            return v;
        }
        for p in 0..self.alphabet.len() {
            v.push(Op::Insert { p, uid: depth * 64 + p as u32, stats: false });
        }
        for p in 0..self.alphabet.len() {
            v.push(Op::Insert { p, uid: depth * 64 + p as u32, stats: true });
        }
        if s.policy_changes < self.policy_bound && s.dt.number_of_vertices() <= self.policy_until_vertices {
            for i in 1..4 {
                v.push(Op::SetVP(i));
            }
            for i in 1..3 {
                v.push(Op::SetTG(i));
                v.push(Op::SetRP(i));
                v.push(Op::SetCP(i));
            }
        }
        v
    }
    fn step(&self, s: &St<K, D>, op: &Op, hist: &[Op]) -> Option<St<K, D>> {
        let mut dt = s.dt.clone();
        let before: HashSet<uuid::Uuid> = s.dt.vertices().map(|(_, v)| v.uuid()).collect();
        let out = model::apply(&mut dt, op, &self.alphabet);
        self.rep.outcome(&out.class());
        let is_policy = matches!(op, Op::SetVP(_) | Op::SetTG(_) | Op::SetRP(_) | Op::SetCP(_));
        if let Outcome::Panic { .. } = out {
            // panics are C19's subject; the state after an unwound call is not judged here
            return None;
        }
        let sig = |check: &str, detail: Value| json!({"check": check, "D": D, "kernel": self.kname, "family": self.label, "outcome": out.class(), "policies": policies_label(&dt), "detail": detail});
        let (snap, verdict) = reference_verdict(&dt, false, false);
        // bootstrap state or valid
        if snap.n_cells() == 0 {
            if snap.n_vertices() > D {
                self.rep.violation(Finding {
                    signature: sig("bootstrap_or_valid", json!("vertices_without_cells")),
                    description: format!("after {op:?} -> {}: {} vertices but no cells (neither bootstrap state nor a triangulation)", out.class(), snap.n_vertices()),
                    replay: self.replay_json("empty", hist, op),
                });
                return None;
            }
            let l1 = refval::level1(&snap);
            if let Some(e) = l1.first() {
                self.rep.violation(Finding { signature: sig("bootstrap_l1", json!(null)), description: format!("bootstrap state fails Level 1: {e}"), replay: self.replay_json("empty", hist, op) });
                return None;
            }
        } else if let Some(first) = verdict.first() {
            let level = first.split(':').next().unwrap_or("?").to_string();
            let class: String = vcore::report::msg_class(first.splitn(2, ':').nth(1).unwrap_or(""));
            self.rep.violation(Finding {
                signature: sig("reference_validity", json!({"level": level, "class": class})),
                description: format!("after {op:?} -> {}: state fails the independent reference at guarantee {:?}: {first}", out.class(), dt.topology_guarantee()),
                replay: self.replay_json("empty", hist, op),
            });
            return None;
        }
        if !is_policy {
            let after: HashSet<uuid::Uuid> = snap.verts.iter().map(|v| v.uuid).collect();
            match &out {
                Outcome::Ok { key, .. } => {
                    let Op::Insert { p, uid, .. } = op else { unreachable!() };
                    let want = model::uuid_for_uid(*uid);
                    let mut expect = before.clone();
                    expect.insert(want);
                    let resolves = key.and_then(|k| dt.tds().get_vertex_by_key(k)).map(|v| (v.uuid(), v.data));
                    if after != expect || after.len() != before.len() + 1 || resolves != Some((want, Some(*p as i32))) {
                        self.rep.violation(Finding {
                            signature: sig("inserted_accounting", json!(null)),
                            description: format!("Inserted: vertex set is not old + the caller's vertex (before {}, after {}, returned key resolves to {resolves:?}, expected uuid {want})", before.len(), after.len()),
                            replay: self.replay_json("empty", hist, op),
                        });
                        return None;
                    }
                    if dt.delaunay_check_policy() == DelaunayCheckPolicy::EveryN(NonZeroUsize::new(1).unwrap()) && snap.n_cells() > 0 {
                        if let Some(&(ci, vi)) = refval::delaunay_violations(&snap, true).first() {
                            self.rep.violation(Finding {
                                // `library_verifier_accepts` separates "the crate's own Level-4 verifier is blind to this violation" (the defect recorded
                                // for C04) from "the verifier would have rejected it, but the insertion did not ask / did not listen"
                                signature: json!({"check": "delaunay_after_checked_insert", "D": D, "kernel": self.kname, "family": self.label, "mechanism": refval::violation_mechanism(&snap), "library_verifier_accepts": dt.is_delaunay_via_flips().is_ok()}),
                                description: format!("check policy EveryN(1): Inserted, but vertex {:?} is strictly inside the circumsphere of cell {:?}", snap.verts[vi].c, snap.cell_points(ci)),
                                replay: self.replay_json("empty", hist, op),
                            });
                        }
                    }
                }
                _ => {}
            }
        }
        if hist.len() % 3 == 1 {
            self.rep.sample(json!({"D": D, "kernel": self.kname, "ops": hist.iter().chain(std::iter::once(op)).map(|o| format!("{o:?}")).collect::<Vec<_>>(), "last": out.class(), "cells": snap.n_cells()}), 8);
        }
        if self.switch_mode && s.policy_changes >= 2 {
            if let Outcome::Err { class, .. } = &out {
                if class.contains("DelaunayValidation") {
                    self.checked_refusals.fetch_add(1, std::sync::atomic::Ordering::Relaxed);
                }
            }
            return Some(St { dt, policy_changes: s.policy_changes + 1 });
        }
        Some(St { dt, policy_changes: s.policy_changes + u8::from(is_policy) })
    }
}

#[allow(clippy::too_many_arguments)]
fn run<K, const D: usize>(rep: &Report, kname: &'static str, label: &str, alphabet: Vec<[f64; D]>, seed_pts: &[[f64; D]], depth: usize, policy_bound: u8, initial_policy_devs: bool, total: &mut Stats, bounds: &mut Vec<Value>)
where
    K: Kernel<D, Scalar = f64> + Sync + Send,
    DtI<K, D>: Send + Sync,
{
    let m = M::<K, D> { rep, seed_pts: seed_pts.to_vec(), kname, label: label.to_string(), alphabet, policy_bound, policy_until_vertices: D + 2, switch_mode: false, switch_max_vertices: 0, latent: &LATENT, checked_refusals: &REFUSALS, _k: std::marker::PhantomData };
    // seeds: empty triangulation (or a batch-constructed one) under the default policies and every single-policy deviation
    let mut seeds: Vec<(St<K, D>, Vec<Op>)> = Vec::new();
    let base: DtI<K, D> = if seed_pts.is_empty() {
        DelaunayTriangulation::with_empty_kernel(K::default())
    } else {
        let vs: Vec<_> = seed_pts.iter().enumerate().map(|(i, c)| mk_vertex::<i32, D>(*c, 0x9000 + i as u128, Some(1000 + i as i32))).collect();
        match DelaunayTriangulation::with_topology_guarantee_and_options(&K::default(), &vs, TopologyGuarantee::DEFAULT, ConstructionOptions::default()) {
            Ok(d) => d,
            Err(_) => return,
        }
    };
    seeds.push((St { dt: base.clone(), policy_changes: 0 }, vec![]));
    if initial_policy_devs {
        let devs: Vec<Op> = (1..4).map(Op::SetVP).chain((1..3).map(Op::SetTG)).chain((1..3).map(Op::SetRP)).chain((1..3).map(Op::SetCP)).collect();
        for d in devs {
            let mut dt = base.clone();
            model::apply(&mut dt, &d, &m.alphabet);
            seeds.push((St { dt, policy_changes: 0 }, vec![d]));
        }
    }
    let nseeds = seeds.len();
    let st = bfs(&m, seeds, depth, &Caps { max_states_per_level: 3_000_000, wall_s: 0.0 });
    bounds.push(json!({"D": D, "kernel": kname, "family": label, "alphabet": m.alphabet.len(), "seeds": nseeds, "depth": st.depth_completed, "states": st.states, "transitions": st.transitions, "levels": st.level_sizes, "caps_hit": st.caps_hit, "mid_history_policy_changes": policy_bound}));
    total.states += st.states;
    total.transitions += st.transitions;
    total.caps_hit.extend(st.caps_hit);
}

static LATENT: std::sync::atomic::AtomicU64 = std::sync::atomic::AtomicU64::new(0);
static REFUSALS: std::sync::atomic::AtomicU64 = std::sync::atomic::AtomicU64::new(0);

/// "latent violation, then switch the checks on": see `M::switch_mode`.
fn run_switch<K, const D: usize>(rep: &Report, kname: &'static str, label: &str, alphabet: Vec<[f64; D]>, max_vertices: usize, total: &mut Stats, bounds: &mut Vec<Value>)
where
    K: Kernel<D, Scalar = f64> + Sync + Send,
    DtI<K, D>: Send + Sync,
{
    let m = M::<K, D> { rep, seed_pts: vec![], kname, label: label.to_string(), alphabet, policy_bound: 0, policy_until_vertices: 0, switch_mode: true, switch_max_vertices: max_vertices, latent: &LATENT, checked_refusals: &REFUSALS, _k: std::marker::PhantomData };
    let mut dt: DtI<K, D> = DelaunayTriangulation::with_empty_kernel(K::default());
    model::apply(&mut dt, &Op::SetRP(1), &m.alphabet);
    let (l0, r0) = (LATENT.load(std::sync::atomic::Ordering::Relaxed), REFUSALS.load(std::sync::atomic::Ordering::Relaxed));
    let st = bfs(&m, vec![(St { dt, policy_changes: 0 }, vec![Op::SetRP(1)])], max_vertices + 4, &Caps { max_states_per_level: 3_000_000, wall_s: 0.0 });
    bounds.push(json!({"D": D, "kernel": kname, "family": label, "alphabet": m.alphabet.len(), "depth": st.depth_completed, "states": st.states, "transitions": st.transitions, "levels": st.level_sizes, "caps_hit": st.caps_hit,
        "latent_non_delaunay_states_switched": LATENT.load(std::sync::atomic::Ordering::Relaxed) - l0, "checked_insertions_refused_as_non_delaunay": REFUSALS.load(std::sync::atomic::Ordering::Relaxed) - r0}));
    total.states += st.states;
    total.transitions += st.transitions;
    total.caps_hit.extend(st.caps_hit);
}

/// every pair of policy deviations (from different axes) set before the first insertion
fn run_pairs<K, const D: usize>(rep: &Report, kname: &'static str, label: &str, alphabet: Vec<[f64; D]>, depth: usize, total: &mut Stats, bounds: &mut Vec<Value>)
where
    K: Kernel<D, Scalar = f64> + Sync + Send,
    DtI<K, D>: Send + Sync,
{
    let m = M::<K, D> { rep, seed_pts: vec![], kname, label: label.to_string(), alphabet, policy_bound: 0, policy_until_vertices: 0, switch_mode: false, switch_max_vertices: 0, latent: &LATENT, checked_refusals: &REFUSALS, _k: std::marker::PhantomData };
    let axes: Vec<Vec<Op>> = vec![(1..4).map(Op::SetVP).collect(), (1..3).map(Op::SetTG).collect(), (1..3).map(Op::SetRP).collect(), (1..3).map(Op::SetCP).collect()];
    let mut seeds: Vec<(St<K, D>, Vec<Op>)> = Vec::new();
    for a in 0..axes.len() {
        for b in a + 1..axes.len() {
            for x in &axes[a] {
                for y in &axes[b] {
                    let mut dt: DtI<K, D> = DelaunayTriangulation::with_empty_kernel(K::default());
                    model::apply(&mut dt, x, &m.alphabet);
                    model::apply(&mut dt, y, &m.alphabet);
                    seeds.push((St { dt, policy_changes: 0 }, vec![x.clone(), y.clone()]));
                }
            }
        }
    }
    let nseeds = seeds.len();
    let st = bfs(&m, seeds, depth, &Caps { max_states_per_level: 3_000_000, wall_s: 0.0 });
    bounds.push(json!({"D": D, "kernel": kname, "family": label, "alphabet": m.alphabet.len(), "seeds": nseeds, "depth": st.depth_completed, "states": st.states, "transitions": st.transitions, "levels": st.level_sizes, "caps_hit": st.caps_hit}));
    total.states += st.states;
    total.transitions += st.transitions;
    total.caps_hit.extend(st.caps_hit);
}

fn both<const D: usize>(rep: &Report, label: &str, alphabet: Vec<[f64; D]>, seed_pts: &[[f64; D]], depth: usize, policy_bound: u8, devs: bool, total: &mut Stats, bounds: &mut Vec<Value>) {
    run::<FastKernel<f64>, D>(rep, "fast", label, alphabet.clone(), seed_pts, depth, policy_bound, devs, total, bounds);
    run::<RobustKernel<f64>, D>(rep, "robust", label, alphabet, seed_pts, depth, policy_bound, devs, total, bounds);
}

fn main() {
    let args = parse_args();
    if let Some(p) = &args.replay {
        std::process::exit(vcore::replay::generic(p));
    }
    silence_panics();
    let rep = Report::new("C02", &args);
    vcore::exact::self_check();
    let thorough = args.tier == Tier::Thorough;
    let mut total = Stats::default();
    let mut bounds: Vec<Value> = Vec::new();
    let x = usize::from(thorough);

    // D=2
    let g3 = alpha::grid::<2>(3);
    both::<2>(&rep, "G2(3) from empty, default policies", g3.clone(), &[], 6 + x, 0, false, &mut total, &mut bounds);
    both::<2>(&rep, "G2(3) from empty, policy deviations", g3.clone(), &[], 4 + x, 1, true, &mut total, &mut bounds);
    let g4 = alpha::grid::<2>(4);
    both::<2>(&rep, "G2(4) from constructed seed", g4.clone(), &[[0.0, 0.0], [3.0, 0.0], [0.0, 3.0], [3.0, 3.0], [1.0, 2.0]], 3, 0, true, &mut total, &mut bounds);
    // latent violation under repair policy Never, then repair + per-insertion check switched on, then two insertions
    // (alphabets with flat simplices and outliers, so that hull extension without repair leaves non-Delaunay facets)
    let wide2: Vec<[f64; 2]> = vec![[0.0, 0.0], [2.0, 0.0], [1.0, 0.25], [1.0, -0.5], [6.0, 0.0], [6.0, 3.0], [5.5, 1.0], [0.0, 1.0], [3.0, 3.0]];
    run_switch::<FastKernel<f64>, 2>(&rep, "fast", "flat triangle + outliers, switch-on after latent violation", wide2.clone(), 5 + x, &mut total, &mut bounds);
    run_switch::<RobustKernel<f64>, 2>(&rep, "robust", "flat triangle + outliers, switch-on after latent violation", wide2, 5 + x, &mut total, &mut bounds);
    // pairs of policy deviations from the start (a guard that is skipped under one setting is often backed up by another
    // one that a second setting switches off): points on hull edges / facets included
    run_pairs::<FastKernel<f64>, 2>(&rep, "fast", "G2(3) from empty, pairs of policy deviations", g3.clone(), 4 + x, &mut total, &mut bounds);
    run_pairs::<RobustKernel<f64>, 2>(&rep, "robust", "G2(3) from empty, pairs of policy deviations", g3.clone(), 4 + x, &mut total, &mut bounds);
    let onf3: Vec<[f64; 3]> = vec![[0.0, 0.0, 0.0], [2.0, 0.0, 0.0], [0.0, 2.0, 0.0], [0.0, 0.0, 2.0], [1.0, 1.0, 0.0], [0.5, 0.5, 0.0], [0.5, 0.5, 0.5]];
    run_pairs::<FastKernel<f64>, 3>(&rep, "fast", "tetrahedron + on-facet points from empty, pairs of policy deviations", onf3.clone(), 5 + x, &mut total, &mut bounds);
    run_pairs::<RobustKernel<f64>, 3>(&rep, "robust", "tetrahedron + on-facet points from empty, pairs of policy deviations", onf3, 5 + x, &mut total, &mut bounds);
    // D=3
    let mut c3 = alpha::grid::<3>(2);
    c3.push([0.5; 3]);
    both::<3>(&rep, "cube3+centre from empty, default policies", c3.clone(), &[], 6 + x, 0, false, &mut total, &mut bounds);
    both::<3>(&rep, "cube3+centre from empty, policy deviations", c3.clone(), &[], 4 + x, 1, true, &mut total, &mut bounds);
    let wide3: Vec<[f64; 3]> = vec![[0.0, 0.0, 0.0], [2.0, 0.0, 0.0], [0.0, 2.0, 0.0], [1.0, 1.0, 0.25], [1.0, 1.0, -0.5], [6.0, 0.0, 0.0], [6.0, 3.0, 2.0]];
    run_switch::<FastKernel<f64>, 3>(&rep, "fast", "flat tetrahedron + outliers, switch-on after latent violation", wide3.clone(), 6 + x, &mut total, &mut bounds);
    run_switch::<RobustKernel<f64>, 3>(&rep, "robust", "flat tetrahedron + outliers, switch-on after latent violation", wide3, 6 + x, &mut total, &mut bounds);
    both::<3>(&rep, "cube3+centre from constructed seed", c3.clone(), &[[0.0, 0.0, 0.0], [1.0, 0.0, 0.0], [0.0, 1.0, 0.0], [0.0, 0.0, 1.0], [1.0, 1.0, 1.0]], 3, 0, true, &mut total, &mut bounds);
    // D=4,5: alphabets of D+3 (quick) / D+4 points
    let a4: Vec<[f64; 4]> = alpha::cube_alphabet::<4>().into_iter().take(7 + x).collect();
    both::<4>(&rep, "cube alphabet from empty", a4.clone(), &[], 7, 0, false, &mut total, &mut bounds);
    let seed4: Vec<[f64; 4]> = a4.iter().take(5).copied().collect();
    both::<4>(&rep, "cube alphabet from constructed seed, policy deviations", alpha::cube_alphabet::<4>(), &seed4, 2, 0, true, &mut total, &mut bounds);
    let a5: Vec<[f64; 5]> = alpha::cube_alphabet::<5>().into_iter().take(8 + x).collect();
    let seed5: Vec<[f64; 5]> = a5.iter().take(6).copied().collect();
    both::<5>(&rep, "cube alphabet from constructed seed", alpha::cube_alphabet::<5>(), &seed5, 2, 0, true, &mut total, &mut bounds);
    if thorough {
        both::<5>(&rep, "cube alphabet from empty", a5.clone(), &[], 8, 0, false, &mut total, &mut bounds);
        let mp2 = alpha::moment_points::<2>(8);
        both::<2>(&rep, "moment curve from empty", mp2, &[], 7, 1, false, &mut total, &mut bounds);
    }
    if total.states < 1000 {
        machinery_fail("C02 vacuous: fewer than 1000 states explored");
    }
    let cov = json!({
        "states": total.states,
        "transitions": total.transitions,
        "traces_validated_against_impl": total.transitions,
        "exhaustive": total.caps_hit.is_empty(),
        "caps_hit": total.caps_hit,
        "rule": "BFS over Insert/InsertWithStatistics of every alphabet point (+ <=1 policy setter while <= D+2 vertices) from the empty triangulation / a batch-constructed seed under the default policies and every single-policy deviation; state = ordered dump incl. hidden caches; every transition is the real call on a clone of the real object",
        "bounds": bounds,
    });
    let code = rep.finish("model_checking", cov, vec!["exact oracle self-check passed".into(), "hidden-state digest hook is read-only".into(), "panicking transitions are not expanded here (C19 owns them)".into()], args.part.as_deref());
    std::process::exit(code);
}
