//! C11 — the convex hull view is the true hull and never serves stale data.

use delaunay::core::triangulation::TopologyGuarantee;
use delaunay::geometry::algorithms::convex_hull::{ConvexHull, ConvexHullConstructionError, ConvexHullValidationError};
use delaunay::geometry::kernel::{FastKernel, Kernel, RobustKernel};
use delaunay::geometry::point::Point;
use delaunay::geometry::traits::coordinate::Coordinate;
use delaunay::verif_hooks as fp;
use rayon::prelude::*;
use serde_json::{Value, json};
use std::collections::BTreeSet;
use std::sync::atomic::{AtomicU64, Ordering};
use vcore::alpha::{self, subsets};
use vcore::corpus::state_corpus;
use vcore::dtx::{silence_panics, snap_of};
use vcore::exact;
use vcore::model::{self, DtI, Op, Outcome};
use vcore::refval;
use vcore::report::{Finding, Report, Tier, machinery_fail, parse_args};
use vcore::snap::Snap;

struct Cn {
    states: AtomicU64,
    hulls: AtomicU64,
    queries: AtomicU64,
    ops: AtomicU64,
    stale_required: AtomicU64,
    unchanged_answers: AtomicU64,
    rolled_back_mutations: AtomicU64,
}

type Hull<K, const D: usize> = ConvexHull<K, i32, (), D>;

/// exact: is q certainly strictly on the outer side of the boundary facet (cell ci, opposite slot i)? None = undecidable
fn outer_side<const D: usize>(s: &Snap<D>, ci: usize, slot: usize, q: &[f64; D]) -> Option<bool> {
    let c = &s.cells[ci];
    let facet: Vec<&[f64]> = c.vi.iter().enumerate().filter(|(i, _)| *i != slot).map(|(_, &k)| &s.verts[k].c[..]).collect();
    let apex = &s.verts[c.vi[slot]].c;
    let mut a = facet.clone();
    a.push(apex);
    let oa = exact::orient(&a);
    let n = a.len();
    a[n - 1] = q;
    let oq = exact::orient(&a);
    let (t, e) = exact::orient_band(&a);
    if oa.sign == 0 {
        return None;
    }
    if oq.sign == 0 {
        return Some(false);
    }
    if oq.mag <= 4.0 * t + e {
        return None;
    }
    Some(oq.sign * oa.sign < 0)
}

fn hull_queries<const D: usize>(s: &Snap<D>) -> Vec<[f64; D]> {
    let mut out: Vec<[f64; D]> = Vec::new();
    let n = s.verts.len() as f64;
    let cen: [f64; D] = std::array::from_fn(|i| s.verts.iter().map(|v| v.c[i]).sum::<f64>() / n);
    out.push(cen);
    for v in &s.verts {
        out.push(std::array::from_fn(|i| cen[i] + 2.0 * (v.c[i] - cen[i])));
        out.push(std::array::from_fn(|i| cen[i] + 0.5 * (v.c[i] - cen[i])));
    }
    for c in &s.cells {
        let m = c.vi.len() as f64;
        let cc: [f64; D] = std::array::from_fn(|i| c.vi.iter().map(|&k| s.verts[k].c[i]).sum::<f64>() / m);
        out.push(cc);
        for omit in 0..c.vi.len() {
            let fc: [f64; D] = std::array::from_fn(|i| c.vi.iter().enumerate().filter(|(j, _)| *j != omit).map(|(_, &k)| s.verts[k].c[i]).sum::<f64>() / (m - 1.0));
            out.push(std::array::from_fn(|i| cc[i] + 3.0 * (fc[i] - cc[i])));
        }
    }
    for d in 0..D {
        for sgn in [-1.0, 1.0] {
            let mut p = cen;
            p[d] += sgn * 10.0;
            out.push(p);
        }
    }
    // points in the supporting hyperplane of a boundary facet but outside the facet (strictly outside the hull, exactly
    // coplanar with that facet): facet centroid + 2 and + 8 times (facet vertex - facet centroid)
    let fm = refval::facet_map(s);
    for (f, inc) in fm.iter() {
        if inc.len() != 1 {
            continue;
        }
        let idx: Vec<usize> = f.iter().map(|k| s.vidx[k]).collect();
        let m = idx.len() as f64;
        let fc: [f64; D] = std::array::from_fn(|i| idx.iter().map(|&k| s.verts[k].c[i]).sum::<f64>() / m);
        for &k in &idx {
            for t in [2.0, 8.0] {
                out.push(std::array::from_fn(|i| fc[i] + t * (s.verts[k].c[i] - fc[i])));
            }
        }
    }
    out
}

fn is_stale_c(e: &ConvexHullConstructionError) -> bool {
    matches!(e, ConvexHullConstructionError::StaleHull { .. })
}

/// hull correctness on an unchanged triangulation
fn check_fresh_hull<K: Kernel<D, Scalar = f64>, const D: usize>(rep: &Report, cn: &Cn, dt: &DtI<K, D>, hull: &Hull<K, D>, replay: &dyn Fn(&str) -> Value, only_unchanged_answers: bool) {
    let s = snap_of(dt);
    let tri = dt.as_triangulation();
    let fm = refval::facet_map(&s);
    let ref_boundary: BTreeSet<Vec<usize>> = fm.iter().filter(|(_, inc)| inc.len() == 1).map(|(f, _)| { let mut v: Vec<usize> = f.iter().map(|k| s.vidx[k]).collect(); v.sort(); v }).collect();
    let mut hull_sets: Vec<Vec<usize>> = Vec::new();
    let mut handles: Vec<(usize, usize)> = Vec::new();
    for h in hull.facets() {
        let Some(&ci) = s.cidx.get(&h.cell_key()) else {
            rep.violation(Finding { signature: json!({"check": "hull_handle_dangling", "D": D}), description: "a hull facet handle names a cell that does not exist although the hull claims to be valid for this triangulation".into(), replay: replay("facets") });
            return;
        };
        let slot = h.facet_index() as usize;
        let mut v: Vec<usize> = s.cells[ci].vi.iter().enumerate().filter(|(i, _)| *i != slot).map(|(_, &k)| k).collect();
        v.sort();
        hull_sets.push(v);
        handles.push((ci, slot));
    }
    let sig = |check: &str| json!({"check": check, "D": D, "after_noop": only_unchanged_answers});
    let got: BTreeSet<Vec<usize>> = hull_sets.iter().cloned().collect();
    cn.queries.fetch_add(1, Ordering::Relaxed);
    if got != ref_boundary || hull_sets.len() != ref_boundary.len() {
        rep.violation(Finding { signature: sig("facets_ne_boundary"), description: format!("hull has {} facets ({} distinct) but the complex has {} facets incident to exactly one cell", hull_sets.len(), got.len(), ref_boundary.len()), replay: replay("facets") });
        return;
    }
    // closed surface + every vertex on the inner side (exact)
    let inv = refval::comb_invariants(&s);
    if !inv.closed_boundary {
        rep.violation(Finding { signature: sig("hull_not_closed"), description: "hull facets do not form a closed surface".into(), replay: replay("facets") });
    }
    for &(ci, slot) in &handles {
        for v in &s.verts {
            if outer_side(&s, ci, slot, &v.c) == Some(true) {
                rep.violation(Finding { signature: sig("vertex_outside_hull_facet"), description: format!("vertex {:?} is certainly on the outer side of a hull facet", v.c), replay: replay("facets") });
                return;
            }
        }
    }
    match hull.validate(tri) {
        Ok(()) => {}
        Err(e) => {
            rep.violation(Finding { signature: sig("validate_rejects_true_hull"), description: format!("ConvexHull::validate rejects the hull of a valid, unchanged triangulation: {e}"), replay: replay("validate") });
        }
    }
    // visibility / outside queries
    for q in hull_queries(&s) {
        let qp = Point::new(q);
        let truth: Vec<Option<bool>> = handles.iter().map(|&(ci, slot)| outer_side(&s, ci, slot, &q)).collect();
        if truth.iter().any(|t| t.is_none()) {
            continue;
        }
        let visible_ref: BTreeSet<usize> = truth.iter().enumerate().filter(|(_, t)| **t == Some(true)).map(|(i, _)| i).collect();
        cn.queries.fetch_add(3, Ordering::Relaxed);
        match hull.find_visible_facets(&qp, tri) {
            Ok(v) => {
                let got: BTreeSet<usize> = v.into_iter().collect();
                if got != visible_ref {
                    rep.violation(Finding { signature: sig("find_visible_facets"), description: format!("find_visible_facets({q:?}) = {got:?} but exactly {visible_ref:?} are strictly visible"), replay: replay("find_visible_facets") });
                }
            }
            Err(e) => {
            rep.violation(Finding { signature: sig("query_error_on_fresh_hull"), description: format!("find_visible_facets({q:?}) failed on an unchanged triangulation: {e}"), replay: replay("find_visible_facets") });
        }
        }
        match hull.is_point_outside(&qp, tri) {
            Ok(b) => {
                if b != !visible_ref.is_empty() {
                    rep.violation(Finding { signature: sig("is_point_outside"), description: format!("is_point_outside({q:?}) = {b} but the exact answer is {}", !visible_ref.is_empty()), replay: replay("is_point_outside") });
                }
            }
            Err(e) => {
            rep.violation(Finding { signature: sig("query_error_on_fresh_hull"), description: format!("is_point_outside({q:?}) failed: {e}"), replay: replay("is_point_outside") });
        }
        }
        for (i, h) in hull.facets().enumerate() {
            match hull.is_facet_visible_from_point(h, &qp, tri) {
                Ok(b) => {
                    if Some(b) != truth[i] {
                        rep.violation(Finding { signature: sig("is_facet_visible_from_point"), description: format!("is_facet_visible_from_point(facet {i}, {q:?}) = {b}, exact {:?}", truth[i]), replay: replay("is_facet_visible_from_point") });
                        break;
                    }
                }
                Err(e) => {
                    rep.violation(Finding { signature: sig("query_error_on_fresh_hull"), description: format!("is_facet_visible_from_point failed: {e}"), replay: replay("is_facet_visible_from_point") });
                    break;
                }
            }
        }
    }
}

/// every hull query must report staleness
fn require_stale<K: Kernel<D, Scalar = f64>, const D: usize>(rep: &Report, dt: &DtI<K, D>, hull: &Hull<K, D>, why: &str, op: &Op, out: &Outcome, replay: &dyn Fn(&str) -> Value) {
    let tri = dt.as_triangulation();
    let q = Point::new([0.123; D]);
    let mut served: Vec<&str> = Vec::new();
    // every query under catch_unwind: a panic (e.g. a debug assertion) is not a staleness report either
    let mut panicked: Vec<&str> = Vec::new();
    let h0 = hull.facets().next();
    let answers: Vec<(&str, Result<bool, String>)> = vec![
        ("is_valid_for_triangulation", vcore::dtx::guarded(|| !hull.is_valid_for_triangulation(tri))),
        ("validate", vcore::dtx::guarded(|| matches!(hull.validate(tri), Err(ConvexHullValidationError::StaleHull { .. })))),
        ("is_point_outside", vcore::dtx::guarded(|| matches!(hull.is_point_outside(&q, tri), Err(ref e) if is_stale_c(e)))),
        ("find_visible_facets", vcore::dtx::guarded(|| matches!(hull.find_visible_facets(&q, tri), Err(ref e) if is_stale_c(e)))),
        ("find_nearest_visible_facet", vcore::dtx::guarded(|| matches!(hull.find_nearest_visible_facet(&q, tri), Err(ref e) if is_stale_c(e)))),
        ("is_facet_visible_from_point", vcore::dtx::guarded(|| h0.is_none_or(|h| matches!(hull.is_facet_visible_from_point(h, &q, tri), Err(ref e) if is_stale_c(e))))),
    ];
    for (name, a) in answers {
        match a {
            Ok(true) => {}
            Ok(false) => served.push(name),
            Err(_) => panicked.push(name),
        }
    }
    if !panicked.is_empty() {
        rep.violation(Finding {
            signature: json!({"check": "stale_hull_query_panicked", "queries": panicked, "D": D}),
            description: format!("after {op:?} -> {} ({why}) these hull queries panicked instead of reporting staleness: {panicked:?}", out.class()),
            replay: replay("staleness"),
        });
    }
    if !served.is_empty() {
        rep.violation(Finding {
            signature: json!({"check": "stale_hull_served", "why": why, "op": opk(op), "outcome": out.class(), "D": D}),
            description: format!("after {op:?} -> {} ({why}) these hull queries did not report staleness: {served:?}", out.class()),
            replay: replay("staleness"),
        });
    }
}

fn opk(op: &Op) -> String {
    let s = format!("{op:?}");
    s.split(|c: char| c == ' ' || c == '(' || c == '{').next().unwrap_or("?").to_string()
}

/// a fresh, independent (own generation counter) copy of a state: serde round trip keeps policies
fn independent<K: Kernel<D, Scalar = f64>, const D: usize>(dt: &DtI<K, D>) -> DtI<K, D> {
    let mut d = dt.clone();
    let _ = model::apply(&mut d, &Op::SerdeSwap, &[]);
    d
}

fn check_state<K: Kernel<D, Scalar = f64>, const D: usize>(rep: &Report, cn: &Cn, kname: &str, family: &str, prov: &str, state: &DtI<K, D>, alphabet: &[[f64; D]], full_ops: bool) {
    cn.states.fetch_add(1, Ordering::Relaxed);
    let base = independent(state);
    let s0 = snap_of(&base);
    let replay_base = |api: &str, op: Option<&Op>| json!({"D": D, "kernel": kname, "family": family, "state": prov, "vertices": s0.verts.iter().map(|v| v.c.to_vec()).collect::<Vec<_>>(), "cells": s0.cells.iter().map(|c| c.vi.clone()).collect::<Vec<_>>(), "api": api, "op": op});
    let Ok(hull) = Hull::<K, D>::from_triangulation(base.as_triangulation()) else {
        rep.violation(Finding { signature: json!({"check": "hull_construction_failed", "D": D}), description: "ConvexHull::from_triangulation failed on a valid triangulation".into(), replay: replay_base("from_triangulation", None) });
        return;
    };
    cn.hulls.fetch_add(1, Ordering::Relaxed);
    check_fresh_hull(rep, cn, &base, &hull, &|api| replay_base(api, None), false);
    // ---- staleness under every op ----
    let mut ops: Vec<Op> = Vec::new();
    for p in 0..alphabet.len() {
        ops.push(Op::Insert { p, uid: 900 + p as u32, stats: p % 2 == 0 });
    }
    // extreme (finite) coordinates: insertion mutates, then fails and rolls back
    ops.push(Op::InsertAt { c: (0..D).map(|i| if i < 2 { 1e200 } else { 1.0 }).collect(), uid: 990, stats: false });
    ops.push(Op::InsertDupUuid { p: 0, of: 0 });
    for v in 0..base.number_of_vertices() {
        ops.push(Op::Remove { v });
    }
    ops.push(Op::RemoveUnknown);
    if full_ops {
        ops.extend(model::flip_ops(&base, &[std::array::from_fn(|i| 0.3 + 0.05 * i as f64)], 4000));
    } else {
        ops.extend(model::flip_ops(&base, &[std::array::from_fn(|i| 0.3 + 0.05 * i as f64)], 4000).into_iter().step_by(7));
    }
    ops.extend([Op::Repair, Op::RepairAdvanced, Op::SetVP(2), Op::SetTG(1), Op::SetRP(1), Op::SetCP(1), Op::TouchMut, Op::CloneSwap, Op::SerdeSwap]);
    // the public local facet repair removes a cell without going through insert / remove / flips: every triple of
    // cells on small states (which cell goes, and whether some vertex used it as its incident cell, varies), sliding
    // triples otherwise
    let nc = base.number_of_cells();
    if nc >= 3 {
        if nc <= 8 || full_ops {
            for a in 0..nc {
                for b in a + 1..nc {
                    for c in b + 1..nc {
                        ops.push(Op::RepairLocalFacets { a, b, c });
                    }
                }
            }
        } else {
            for a in 0..nc - 2 {
                ops.push(Op::RepairLocalFacets { a, b: a + 1, c: a + 2 });
            }
        }
    }
    for op in ops {
        cn.ops.fetch_add(1, Ordering::Relaxed);
        let mut dt = independent(state);
        let Ok(h) = Hull::<K, D>::from_triangulation(dt.as_triangulation()) else { continue };
        // 'changed' means the complex itself (vertices, cells, neighbours); policy setters do not change it
        let before_fp = snap_of(&dt).semantic(false);
        let before_cells: Vec<_> = snap_of(&dt).cells.iter().map(|c| (c.key, c.v.clone())).collect();
        fp::start_recording();
        let out = model::apply(&mut dt, &op, alphabet);
        let hits = fp::stop_recording();
        if let Outcome::Panic { .. } = out {
            continue;
        }
        rep.outcome(&format!("{}:{}", opk(&op), out.class()));
        let after_cells: Vec<_> = snap_of(&dt).cells.iter().map(|c| (c.key, c.v.clone())).collect();
        let changed = snap_of(&dt).semantic(false) != before_fp || before_cells != after_cells;
        // a failpoint site is only reached after the operation's first mutation
        let mutated_then_rolled_back = !changed && hits.iter().any(|(site, _)| !site.starts_with("repair.") && *site != "ins.l3" && *site != "dt.check");
        let rj = |api: &str| replay_base(api, Some(&op));
        if changed {
            cn.stale_required.fetch_add(1, Ordering::Relaxed);
            require_stale(rep, &dt, &h, "triangulation changed", &op, &out, &rj);
        } else if mutated_then_rolled_back && out.is_failure() {
            cn.rolled_back_mutations.fetch_add(1, Ordering::Relaxed);
            require_stale(rep, &dt, &h, "mutation rolled back", &op, &out, &rj);
        } else if h.is_valid_for_triangulation(dt.as_triangulation()) {
            // nothing changed and the hull still answers: the answers must still be exact
            cn.unchanged_answers.fetch_add(1, Ordering::Relaxed);
            check_fresh_hull(rep, cn, &dt, &h, &rj, true);
        }
        // a sibling clone mutated elsewhere may only make the hull more stale (monotone): not a violation either way
    }
}

/// Two changes between hull creation and query on tiny triangulations, each run on a freshly *constructed* object so
/// that the generation counter has its natural value (removing a vertex of the last simplex and inserting again
/// rebuilds the TDS, whose counter starts over): remove every vertex, then insert every alphabet point; the hull is
/// created after 0, 1 or 2 insert-and-remove cycles of a dummy vertex, which moves the counter at creation.
fn two_changes<K: Kernel<D, Scalar = f64>, const D: usize>(rep: &Report, cn: &Cn, kname: &str, family: &str, pts: &[[f64; D]], alphabet: &[[f64; D]]) {
    let Some(probe) = vcore::corpus::build::<K, D>(pts, TopologyGuarantee::PLManifold) else { return };
    let nv = probe.number_of_vertices();
    for bumps in 0..3u32 {
        for v in 0..nv {
            for p in 0..alphabet.len() {
                let Some(mut dt) = vcore::corpus::build::<K, D>(pts, TopologyGuarantee::PLManifold) else { return };
                for b in 0..bumps {
                    let c: [f64; D] = std::array::from_fn(|i| 0.3 + 0.05 * i as f64);
                    if let Outcome::Ok { .. } = model::apply(&mut dt, &Op::K1Insert { cell: 0, c: c.to_vec(), uid: 700 + b }, alphabet) {
                        let idx = dt.vertices().position(|(_, x)| x.point().coords() == &c);
                        if let Some(idx) = idx {
                            let _ = model::apply(&mut dt, &Op::K1Remove { v: idx }, alphabet);
                        }
                    }
                }
                let Ok(h) = Hull::<K, D>::from_triangulation(dt.as_triangulation()) else { continue };
                let before = snap_of(&dt).semantic(false);
                let op1 = Op::Remove { v };
                let o1 = model::apply(&mut dt, &op1, alphabet);
                let op2 = Op::Insert { p, uid: 800 + p as u32, stats: false };
                let o2 = model::apply(&mut dt, &op2, alphabet);
                if matches!(o1, Outcome::Panic { .. }) || matches!(o2, Outcome::Panic { .. }) {
                    continue;
                }
                cn.ops.fetch_add(2, Ordering::Relaxed);
                if snap_of(&dt).semantic(false) != before {
                    cn.stale_required.fetch_add(1, Ordering::Relaxed);
                    let rj = |api: &str| json!({"D": D, "kernel": kname, "family": family, "points": pts.iter().map(|q| q.to_vec()).collect::<Vec<_>>(), "dummy_cycles_before_hull": bumps, "ops": [format!("{op1:?}"), format!("{op2:?}")], "api": api});
                    require_stale(rep, &dt, &h, "two changes", &op2, &o2, &rj);
                }
            }
        }
    }
}

fn run_set<K: Kernel<D, Scalar = f64>, const D: usize>(rep: &Report, cn: &Cn, kname: &str, family: &str, pts: &[[f64; D]], alphabet: &[[f64; D]], cap: usize, full_ops: bool) {
    if pts.len() <= D + 2 {
        two_changes::<K, D>(rep, cn, kname, family, pts, alphabet);
    }
    let corpus = state_corpus::<K, D>(pts, cap);
    for (prov, dt) in &corpus {
        check_state(rep, cn, kname, family, prov, dt, alphabet, full_ops);
    }
    if pts.len() == D + 2 {
        rep.sample(json!({"D": D, "kernel": kname, "family": family, "points": pts.iter().map(|p| p.to_vec()).collect::<Vec<_>>(), "states": corpus.len()}), 6);
    }
}

fn run_family<const D: usize>(rep: &Report, cn: &Cn, family: &str, alphabet: &[[f64; D]], sizes: std::ops::RangeInclusive<usize>, cap: usize, full_ops: bool, bounds: &mut Vec<Value>) {
    let mut sets: Vec<Vec<[f64; D]>> = Vec::new();
    for k in sizes.clone() {
        for s in subsets(alphabet.len(), k) {
            sets.push(s.iter().map(|&i| alphabet[i]).collect());
        }
    }
    sets.par_iter().for_each(|pts| {
        run_set::<FastKernel<f64>, D>(rep, cn, "fast", family, pts, alphabet, cap, full_ops);
        run_set::<RobustKernel<f64>, D>(rep, cn, "robust", family, pts, alphabet, cap, full_ops);
    });
    bounds.push(json!({"D": D, "family": family, "alphabet": alphabet.len(), "subset_sizes": format!("{sizes:?}"), "point_sets": sets.len(), "kernels": 2, "closure_cap": cap, "all_flip_handles": full_ops}));
}

fn main() {
    let args = parse_args();
    if let Some(p) = &args.replay {
        std::process::exit(vcore::replay::generic(p));
    }
    silence_panics();
    let rep = Report::new("C11", &args);
    vcore::exact::self_check();
    let thorough = args.tier == Tier::Thorough;
    let x = usize::from(thorough);
    let cn = Cn { states: AtomicU64::new(0), hulls: AtomicU64::new(0), queries: AtomicU64::new(0), ops: AtomicU64::new(0), stale_required: AtomicU64::new(0), unchanged_answers: AtomicU64::new(0), rolled_back_mutations: AtomicU64::new(0) };
    let mut bounds = Vec::new();
    let cap = if thorough { 60 } else { 6 };
    run_family::<2>(&rep, &cn, "G2(3) subsets", &alpha::grid::<2>(3), 3..=5 + x, cap, thorough, &mut bounds);
    let mut c3 = alpha::grid::<3>(2);
    c3.push([0.5; 3]);
    run_family::<3>(&rep, &cn, "cube3+centre subsets", &c3, 4..=5 + x, cap, thorough, &mut bounds);
    run_family::<4>(&rep, &cn, "cube alphabet subsets", &alpha::cube_alphabet::<4>().into_iter().take(8).collect::<Vec<_>>(), 5..=6, 3, thorough, &mut bounds);
    run_family::<5>(&rep, &cn, "cube alphabet subsets", &alpha::cube_alphabet::<5>().into_iter().take(8).collect::<Vec<_>>(), 6..=6 + x, 2, thorough, &mut bounds);
    let (sr, rb) = (cn.stale_required.load(Ordering::Relaxed), cn.rolled_back_mutations.load(Ordering::Relaxed));
    if sr < 1000 || rb < 10 || cn.queries.load(Ordering::Relaxed) < 10_000 {
        machinery_fail(&format!("C11 vacuous: {sr} staleness obligations, {rb} rolled-back mutations"));
    }
    let cov = json!({
        "states": cn.states.load(Ordering::Relaxed),
        "transitions": cn.ops.load(Ordering::Relaxed),
        "traces_validated_against_impl": cn.ops.load(Ordering::Relaxed),
        "hulls_built": cn.hulls.load(Ordering::Relaxed),
        "hull_query_comparisons": cn.queries.load(Ordering::Relaxed),
        "ops_after_which_staleness_was_required": sr,
        "rolled_back_mutations_requiring_staleness": rb,
        "unchanged_states_rechecked_for_exact_answers": cn.unchanged_answers.load(Ordering::Relaxed),
        "exhaustive": true,
        "rule": "every valid corpus state: hull built on an independent copy (own generation counter); facets == facets in exactly one cell, closed, every vertex on the closed inner side, validate() accepts, find_visible_facets / is_point_outside / is_facet_visible_from_point == exact sidedness for every decidable query point; then every op of the alphabet (inserts incl. one with extreme coordinates that mutates and rolls back, duplicate UUID, removal of every vertex / unknown, flip handles, both repairs, policy setters, mutable view, clone swap, serde swap) applied to the very object the hull was built from: changed or rolled-back-after-mutation => every query must report staleness; unchanged and still served => answers must still be exact",
        "bounds": bounds,
    });
    let code = rep.finish("model_checking", cov, vec!["each (state, op) pair runs on a serde-rebuilt object with its own generation counter, on one thread".into(), "a recorded failpoint hit (other than the read-only ones) proves the operation mutated before failing".into()], args.part.as_deref());
    std::process::exit(code);
}
