//! C14 — construction is deterministic and independent of input order where promised.

use delaunay::core::delaunay_triangulation::{ConstructionOptions, DedupPolicy, DelaunayTriangulation, InsertionOrderStrategy, RetryPolicy};
use delaunay::core::triangulation::TopologyGuarantee;
use delaunay::core::vertex::Vertex;
use delaunay::geometry::kernel::{FastKernel, Kernel, RobustKernel};
use delaunay::vertex;
use rayon::prelude::*;
use serde_json::{Value, json};
use std::num::NonZeroUsize;
use std::sync::atomic::{AtomicU64, Ordering};
use std::sync::mpsc;
use vcore::alpha::{self, mk_vertex, permutations, subsets};
use vcore::corpus::{self, general_position, reference_delaunay};
use vcore::dtx::{guarded, silence_panics, snap_of};
use vcore::model::{self, DtI, Op, Outcome};
use vcore::refval;
use vcore::report::{Finding, Report, Tier, machinery_fail, parse_args};
use vcore::snap::digest;

struct Cn {
    builds: AtomicU64,
    comparisons: AtomicU64,
    perm_groups: AtomicU64,
    gp_equal: AtomicU64,
    schedules: AtomicU64,
    child_inputs: AtomicU64,
}

fn opts(order: InsertionOrderStrategy, dedup: DedupPolicy, retry: RetryPolicy) -> ConstructionOptions {
    ConstructionOptions::default().with_insertion_order(order).with_dedup_policy(dedup).with_retry_policy(retry)
}

fn orders() -> Vec<InsertionOrderStrategy> {
    vec![InsertionOrderStrategy::Hilbert, InsertionOrderStrategy::Morton, InsertionOrderStrategy::Lexicographic, InsertionOrderStrategy::Input]
}
fn dedups() -> Vec<DedupPolicy> {
    vec![DedupPolicy::Off, DedupPolicy::Exact, DedupPolicy::Epsilon { tolerance: 1e-10 }]
}
fn retries() -> Vec<RetryPolicy> {
    vec![RetryPolicy::Disabled, RetryPolicy::Shuffled { attempts: NonZeroUsize::new(3).unwrap(), base_seed: Some(7) }, RetryPolicy::default()]
}

/// canonical description of the result: sorted cells as sorted coordinate-bit tuples, or the error class
fn result_digest<K: Kernel<D, Scalar = f64>, const D: usize>(verts: &[Vertex<f64, i32, D>], o: ConstructionOptions) -> String {
    match guarded(|| DelaunayTriangulation::<K, i32, (), D>::with_topology_guarantee_and_options(&K::default(), verts, TopologyGuarantee::PLManifold, o)) {
        Ok(Ok(dt)) => {
            let s = snap_of(&dt);
            // cells as coordinate tuples + the surviving (coordinates, data) multiset: which input survives a dedup /
            // duplicate skip is part of "the same cells from the same vertex values"
            let mut surv: Vec<(Vec<u64>, String)> = s.verts.iter().map(|v| (v.c.iter().map(|x| x.to_bits()).collect(), v.data.clone())).collect();
            surv.sort();
            format!("Ok:{:x}", digest(&format!("{:?}|{:?}", s.cell_coord_sets(), surv)))
        }
        Ok(Err(e)) => format!("Err:{}", vcore::dtx::variant_name(&e)),
        Err(_) => "panic".into(),
    }
}

/// the same through the statistics-returning constructor (it has its own build closure and bulk loop)
fn result_digest_stats<K: Kernel<D, Scalar = f64>, const D: usize>(verts: &[Vertex<f64, i32, D>], o: ConstructionOptions) -> String {
    match guarded(|| DelaunayTriangulation::<K, i32, (), D>::with_topology_guarantee_and_options_with_construction_statistics(&K::default(), verts, TopologyGuarantee::PLManifold, o)) {
        Ok(Ok((dt, _))) => {
            let s = snap_of(&dt);
            let mut surv: Vec<(Vec<u64>, String)> = s.verts.iter().map(|v| (v.c.iter().map(|x| x.to_bits()).collect(), v.data.clone())).collect();
            surv.sort();
            format!("Ok:{:x}", digest(&format!("{:?}|{:?}", s.cell_coord_sets(), surv)))
        }
        Ok(Err(_)) => "Err".into(),
        Err(_) => "panic".into(),
    }
}

fn det_vertices<const D: usize>(pts: &[[f64; D]]) -> Vec<Vertex<f64, i32, D>> {
    pts.iter().enumerate().map(|(i, c)| mk_vertex::<i32, D>(*c, 1 + i as u128, Some(i as i32))).collect()
}

fn check_input<K: Kernel<D, Scalar = f64> + Send + 'static, const D: usize>(rep: &Report, cn: &Cn, kname: &str, family: &str, pts: &[[f64; D]], all_perms: bool) {
    let gp = general_position(pts);
    let refdt = if gp { Some(reference_delaunay(pts)) } else { None };
    let perms: Vec<Vec<usize>> = if all_perms { permutations(pts.len()).into_iter().map(|(p, _)| p).collect() } else { permutations(pts.len()).into_iter().step_by(17).map(|(p, _)| p).collect() };
    let replay = |extra: Value| json!({"D": D, "kernel": kname, "family": family, "points": pts.iter().map(|p| p.to_vec()).collect::<Vec<_>>(), "detail": extra});
    let combos: Vec<(InsertionOrderStrategy, DedupPolicy, RetryPolicy)> = orders().into_iter().flat_map(|o| dedups().into_iter().flat_map(move |d| retries().into_iter().map(move |r| (o, d, r)))).collect();
    combos.par_iter().for_each(|&(order, dedup, retry)| {
        {
            {
                let o = opts(order, dedup, retry);
                let label = format!("{order:?}/{dedup:?}/{retry:?}");
                let base = det_vertices(pts);
                cn.builds.fetch_add(1, Ordering::Relaxed);
                let d0 = result_digest::<K, D>(&base, o);
                // (a) twice in process, (b) in a freshly spawned thread
                cn.comparisons.fetch_add(2, Ordering::Relaxed);
                let d1 = result_digest::<K, D>(&base, o);
                let b2 = base.clone();
                let d2 = std::thread::spawn(move || result_digest::<K, D>(&b2, o)).join().unwrap_or_else(|_| "thread-panic".into());
                if d0 != d1 || d0 != d2 {
                    rep.violation(Finding { signature: json!({"check": "not_repeatable", "where": if d0 != d1 { "same thread" } else { "fresh thread" }, "D": D}), description: format!("{label}: building twice from the same vertex values gives different results ({d0} / {d1} / {d2})"), replay: replay(json!({"options": label})) });
                    return;
                }
                // (c) random UUIDs (vertex! macro) must not change the cells
                if matches!(retry, RetryPolicy::Disabled) {
                    cn.comparisons.fetch_add(1, Ordering::Relaxed);
                    let rnd: Vec<Vertex<f64, i32, D>> = pts.iter().enumerate().map(|(i, c)| vertex!(*c, i as i32)).collect();
                    let d3 = result_digest::<K, D>(&rnd, o);
                    if d3 != d0 {
                        rep.violation(Finding { signature: json!({"check": "depends_on_uuids", "D": D, "order": format!("{order:?}")}), description: format!("{label}: the cells depend on the vertex UUIDs ({d0} with deterministic, {d3} with random UUIDs)"), replay: replay(json!({"options": label})) });
                    }
                }
                // (d) order independence for the order-normalising strategies
                if !matches!(order, InsertionOrderStrategy::Input) {
                    cn.perm_groups.fetch_add(1, Ordering::Relaxed);
                    for perm in &perms {
                        let pv: Vec<Vertex<f64, i32, D>> = perm.iter().map(|&i| base[i]).collect();
                        cn.comparisons.fetch_add(1, Ordering::Relaxed);
                        let dp = result_digest::<K, D>(&pv, o);
                        if dp != d0 {
                            rep.violation(Finding { signature: json!({"check": "depends_on_input_order", "order": format!("{order:?}"), "dedup": format!("{dedup:?}").split(' ').next(), "D": D, "general_position": gp}), description: format!("{label}: listing the same vertices in the order {perm:?} changes the result ({d0} vs {dp})"), replay: replay(json!({"options": label, "perm": perm})) });
                            break;
                        }
                    }
                }
                // (d') the statistics-returning constructor: order independence over the reversed and the rotated listing
                if !matches!(order, InsertionOrderStrategy::Input) {
                    let s0 = result_digest_stats::<K, D>(&base, o);
                    let n = base.len();
                    for (pname, perm) in [("reversed", (0..n).rev().collect::<Vec<usize>>()), ("rotated", (0..n).map(|i| (i + 1) % n).collect::<Vec<usize>>())] {
                        let pv: Vec<Vertex<f64, i32, D>> = perm.iter().map(|&i| base[i]).collect();
                        cn.comparisons.fetch_add(1, Ordering::Relaxed);
                        let sp = result_digest_stats::<K, D>(&pv, o);
                        if sp != s0 {
                            rep.violation(Finding { signature: json!({"check": "stats_constructor_depends_on_input_order", "order": format!("{order:?}"), "dedup": format!("{dedup:?}").split(' ').next(), "D": D, "general_position": gp}), description: format!("{label}: the statistics-returning constructor gives a different result for the {pname} listing of the same vertices ({s0} vs {sp})"), replay: replay(json!({"options": label, "perm": perm, "constructor": "with_construction_statistics"})) });
                            break;
                        }
                    }
                }
                // (e) general position: any certified Ok is the unique Delaunay triangulation
                if let (Some(r), true) = (&refdt, d0.starts_with("Ok")) {
                    if let Ok(Ok(dt)) = guarded(|| DelaunayTriangulation::<K, i32, (), D>::with_topology_guarantee_and_options(&K::default(), &base, TopologyGuarantee::PLManifold, o)) {
                        let s = snap_of(&dt);
                        // perturbed vertices leave the exact alphabet: compare only when every vertex is bit-identical
                        if let Some(cells) = corpus::cells_as_indices(&s, pts) {
                            cn.gp_equal.fetch_add(1, Ordering::Relaxed);
                            if s.n_vertices() == pts.len() && &cells != r {
                                rep.violation(Finding { signature: json!({"check": "not_the_unique_delaunay", "D": D, "order": format!("{order:?}"), "mechanism": refval::violation_mechanism(&s)}), description: format!("{label}: general-position input, Ok result differs from the unique Delaunay triangulation ({} vs {} cells)", cells.len(), r.len()), replay: replay(json!({"options": label})) });
                            }
                        }
                    }
                }
            }
        }
    });
    // (f) batch vs incremental in general position
    if let Some(r) = &refdt {
        let mut d: DtI<K, D> = DelaunayTriangulation::with_empty_kernel(K::default());
        let a: Vec<[f64; D]> = pts.to_vec();
        let mut ok = true;
        for p in 0..a.len() {
            ok &= matches!(model::apply(&mut d, &Op::Insert { p, uid: p as u32, stats: false }, &a), Outcome::Ok { .. });
        }
        if ok {
            let s = snap_of(&d);
            if let Some(cells) = corpus::cells_as_indices(&s, pts) {
                cn.gp_equal.fetch_add(1, Ordering::Relaxed);
                if &cells != r && refval::delaunay_violations(&s, true).is_empty() {
                    rep.violation(Finding { signature: json!({"check": "incremental_not_unique_delaunay", "D": D}), description: "general position: the incremental build is Delaunay by the exact oracle yet differs from the unique Delaunay triangulation".into(), replay: replay(json!(null)) });
                } else if &cells != r {
                    rep.violation(Finding { signature: json!({"check": "incremental_not_unique_delaunay", "D": D, "mechanism": refval::violation_mechanism(&s)}), description: format!("general position: incremental insertion (all Ok) differs from the unique Delaunay triangulation ({} vs {} cells)", cells.len(), r.len()), replay: replay(json!(null)) });
                }
            }
        }
    }
}

// ---- operation-granularity schedules on two real threads ----
type Job = Box<dyn FnOnce() -> String + Send>;

fn schedules(rep: &Report, cn: &Cn) {
    let a: Vec<[f64; 3]> = alpha::moment_points::<3>(7);
    let b: Vec<[f64; 3]> = alpha::grid::<3>(2);
    let mk_jobs = move || -> Vec<(&'static str, Job)> {
        let (a1, b1, a2, a3) = (a.clone(), b.clone(), a.clone(), a.clone());
        vec![
            ("build A", Box::new(move || result_digest::<FastKernel<f64>, 3>(&det_vertices(&a1), ConstructionOptions::default())) as Job),
            ("build B (degenerate, retries)", Box::new(move || result_digest::<RobustKernel<f64>, 3>(&det_vertices(&b1), opts(InsertionOrderStrategy::Hilbert, DedupPolicy::Off, RetryPolicy::Shuffled { attempts: NonZeroUsize::new(3).unwrap(), base_seed: Some(3) })))),
            (
                "flip then repair_advanced",
                Box::new(move || {
                    let Some(mut d) = corpus::build::<FastKernel<f64>, 3>(&a2, TopologyGuarantee::PLManifold) else { return "seed-err".into() };
                    for op in model::flip_ops(&d, &[], 0).into_iter().filter(|o| matches!(o, Op::K2 { .. })) {
                        let mut t = d.clone();
                        if let Outcome::Ok { .. } = model::apply(&mut t, &op, &[]) {
                            d = t;
                            break;
                        }
                    }
                    let out = model::apply(&mut d, &Op::RepairAdvanced, &[]);
                    format!("{}:{:x}", out.class(), digest(&format!("{:?}", snap_of(&d).cell_coord_sets())))
                }),
            ),
            (
                "incremental inserts",
                Box::new(move || {
                    let mut d: DtI<FastKernel<f64>, 3> = DelaunayTriangulation::with_empty_kernel(FastKernel::new());
                    let mut cls = String::new();
                    for p in 0..a3.len() {
                        cls.push_str(&model::apply(&mut d, &Op::Insert { p, uid: p as u32, stats: true }, &a3).class());
                    }
                    format!("{cls}:{:x}", digest(&format!("{:?}", snap_of(&d).cell_coord_sets())))
                }),
            ),
        ]
    };
    // sequential baseline on this thread
    let baseline: Vec<String> = mk_jobs().into_iter().map(|(_, j)| j()).collect();
    // two persistent workers; a schedule hands over between operations
    let spawn_worker = || {
        let (tx, rx) = mpsc::channel::<(Job, mpsc::Sender<String>)>();
        std::thread::spawn(move || {
            while let Ok((job, back)) = rx.recv() {
                let _ = back.send(job());
            }
        });
        tx
    };
    let workers = [spawn_worker(), spawn_worker()];
    let orders = permutations(4);
    for (order, _) in &orders {
        for assign in 0..16u32 {
            cn.schedules.fetch_add(1, Ordering::Relaxed);
            let mut jobs: Vec<Option<(&'static str, Job)>> = mk_jobs().into_iter().map(Some).collect();
            for &k in order {
                let (name, job) = jobs[k].take().unwrap();
                let w = ((assign >> k) & 1) as usize;
                let (btx, brx) = mpsc::channel();
                workers[w].send((job, btx)).unwrap();
                let got = brx.recv().unwrap_or_else(|_| "worker-died".into());
                if got != baseline[k] {
                    rep.violation(Finding { signature: json!({"check": "schedule_dependent", "op": name}), description: format!("operation '{name}' gives {got} under the schedule order={order:?} assignment={assign:04b} but {} sequentially", baseline[k]), replay: json!({"order": order, "assignment": assign}) });
                }
            }
        }
    }
}

fn run_family<const D: usize>(rep: &Report, cn: &Cn, family: &str, alphabet: &[[f64; D]], sizes: std::ops::RangeInclusive<usize>, stride: usize, all_perms: bool, bounds: &mut Vec<Value>) {
    let mut sets: Vec<Vec<[f64; D]>> = Vec::new();
    for k in sizes.clone() {
        for s in subsets(alphabet.len(), k).into_iter().step_by(stride) {
            sets.push(s.iter().map(|&i| alphabet[i]).collect());
        }
    }
    sets.par_iter().for_each(|pts| {
        check_input::<FastKernel<f64>, D>(rep, cn, "fast", family, pts, all_perms);
        check_input::<RobustKernel<f64>, D>(rep, cn, "robust", family, pts, all_perms);
    });
    if let Some(s) = sets.first() {
        rep.sample(json!({"D": D, "family": family, "points": s.iter().map(|p| p.to_vec()).collect::<Vec<_>>()}), 8);
    }
    bounds.push(json!({"D": D, "family": family, "alphabet": alphabet.len(), "sizes": format!("{sizes:?}"), "stride": stride, "inputs": sets.len(), "permutations": if all_perms { "all" } else { "every 17th" }, "options": orders().len() * dedups().len() * retries().len()}));
}

fn gp_points<const D: usize>(n: usize) -> Vec<[f64; D]> {
    let primes = [7i64, 11, 13, 17, 19];
    (0..n as i64).map(|i| std::array::from_fn(|j| { let mut v = 1i64; for _ in 0..=j { v = (v * (i + 2)) % primes[j]; } (v + if j == 0 { 3 * i } else { 0 }) as f64 })).collect()
}

/// child mode: print one digest per input set, for the cross-process comparison
fn child_inputs() -> Vec<Vec<[f64; 2]>> {
    let g = gp_points::<2>(8);
    subsets(8, 6).into_iter().step_by(3).map(|s| s.iter().map(|&i| g[i]).collect()).collect()
}
fn child_digests() -> Vec<String> {
    child_inputs().iter().map(|p| result_digest::<FastKernel<f64>, 2>(&det_vertices(p), opts(InsertionOrderStrategy::Hilbert, DedupPolicy::Off, RetryPolicy::Shuffled { attempts: NonZeroUsize::new(3).unwrap(), base_seed: None }))).collect()
}

fn main() {
    let args = parse_args();
    if let Some(p) = &args.replay {
        std::process::exit(vcore::replay::generic(p));
    }
    silence_panics();
    if args.extra.iter().any(|a| a == "--child") {
        for d in child_digests() {
            println!("{d}");
        }
        return;
    }
    let rep = Report::new("C14", &args);
    let thorough = args.tier == Tier::Thorough;
    let x = usize::from(thorough);
    let cn = Cn { builds: AtomicU64::new(0), comparisons: AtomicU64::new(0), perm_groups: AtomicU64::new(0), gp_equal: AtomicU64::new(0), schedules: AtomicU64::new(0), child_inputs: AtomicU64::new(0) };
    let mut bounds = Vec::new();
    run_family::<2>(&rep, &cn, "general position", &gp_points::<2>(8), 4..=5 + x, if thorough { 1 } else { 5 }, true, &mut bounds);
    run_family::<2>(&rep, &cn, "G2(3) subsets", &alpha::grid::<2>(3), 4..=5, if thorough { 1 } else { 9 }, true, &mut bounds);
    run_family::<3>(&rep, &cn, "general position", &gp_points::<3>(7), 5..=5 + x, if thorough { 1 } else { 3 }, true, &mut bounds);
    run_family::<3>(&rep, &cn, "cube3 subsets", &alpha::grid::<3>(2), 5..=5, if thorough { 2 } else { 9 }, true, &mut bounds);
    run_family::<4>(&rep, &cn, "general position", &gp_points::<4>(7), 6..=6, if thorough { 1 } else { 2 }, thorough, &mut bounds);
    run_family::<5>(&rep, &cn, "general position", &gp_points::<5>(8), 7..=7, if thorough { 1 } else { 3 }, false, &mut bounds);
    // tight clusters inside a wide cloud: several distinct points share one Hilbert / Morton quantisation cell,
    // so the curve index ties and only the documented coordinate tie-break keeps the order input-independent
    let wide2: Vec<[f64; 2]> = vec![[0.0, 0.0], [1.0, 0.0], [0.0, 1.0], [1.0, 1.0], [0.5, 0.25], [1e10, 0.0], [-1e10, 3e9], [2e9, -1e10]];
    run_family::<2>(&rep, &cn, "tight cluster in wide cloud", &wide2, 6..=6 + x, if thorough { 1 } else { 3 }, true, &mut bounds);
    let wide3: Vec<[f64; 3]> = vec![[0.0, 0.0, 0.0], [1.0, 0.0, 0.0], [0.0, 1.0, 0.0], [0.0, 0.0, 1.0], [1.0, 1.0, 1.0], [1e10, 0.0, 0.0], [-1e10, 3e9, 1e9]];
    run_family::<3>(&rep, &cn, "tight cluster in wide cloud", &wide3, 6..=6 + x, if thorough { 1 } else { 2 }, true, &mut bounds);
    // near-duplicate pairs below the duplicate tolerance: which one survives must not depend on the listing order
    let nd2: Vec<[f64; 2]> = vec![[0.0, 0.0], [4.0, 0.0], [0.0, 4.0], [4.0, 4.0], [1.0, 2.0], [1.0 + 3e-11, 2.0], [3.0, 1.0]];
    run_family::<2>(&rep, &cn, "near-duplicate pair", &nd2, 6..=6 + x, if thorough { 1 } else { 2 }, true, &mut bounds);
    // the same with an outlier that makes the epsilon-dedup hash grid unusable (coordinate / tolerance beyond 2^53:
    // quantised fallback; beyond 2^63: quadratic fallback) - the fallbacks keep the first vertex of a group they see
    let mut nd2q = nd2.clone();
    nd2q.push([1.0e6, 3.0]);
    run_family::<2>(&rep, &cn, "near-duplicate pair + outlier 1e6", &nd2q, 7..=7 + x, 1, thorough, &mut bounds);
    let mut nd2n = nd2.clone();
    nd2n.push([4.0e9, -1.0e9]);
    run_family::<2>(&rep, &cn, "near-duplicate pair + outlier 4e9", &nd2n, 7..=7 + x, 1, thorough, &mut bounds);
    schedules(&rep, &cn);
    // cross-process: a child process of this very binary must report the same digests
    let here = child_digests();
    cn.child_inputs.fetch_add(here.len() as u64, Ordering::Relaxed);
    match std::process::Command::new(std::env::current_exe().unwrap()).arg("--child").output() {
        Ok(out) => {
            let there: Vec<String> = String::from_utf8_lossy(&out.stdout).lines().map(|s| s.to_string()).collect();
            if there != here {
                rep.violation(Finding { signature: json!({"check": "process_dependent"}), description: format!("a child process builds different triangulations from the same inputs: {} of {} digests differ", here.iter().zip(there.iter()).filter(|(a, b)| a != b).count() + here.len().abs_diff(there.len()), here.len()), replay: json!({"parent": here, "child": there}) });
            }
        }
        Err(e) => machinery_fail(&format!("cannot spawn the child process: {e}")),
    }
    let (c, g) = (cn.comparisons.load(Ordering::Relaxed), cn.gp_equal.load(Ordering::Relaxed));
    if c < 10_000 || g < 500 {
        machinery_fail(&format!("C14 vacuous: {c} comparisons, {g} unique-Delaunay comparisons"));
    }
    let cov = json!({
        "states": cn.builds.load(Ordering::Relaxed),
        "transitions": c,
        "traces_validated_against_impl": c + cn.schedules.load(Ordering::Relaxed),
        "constructions_compared": c,
        "input_order_groups": cn.perm_groups.load(Ordering::Relaxed),
        "unique_delaunay_comparisons": g,
        "two_thread_schedules": cn.schedules.load(Ordering::Relaxed),
        "cross_process_inputs": cn.child_inputs.load(Ordering::Relaxed),
        "exhaustive": true,
        "rule": "for every input of the families: every ordering x dedup x retry option built twice in process, in a freshly spawned thread and (retry disabled) with random UUIDs; for Hilbert / Morton / Lexicographic every permutation of the input slice (all n! for n <= 6; every 17th for D=5); general position => every Ok result and the incremental build equal the brute-force unique Delaunay triangulation; all 24 orders x 16 thread assignments of 4 operations (two batch builds, flip + repair_advanced, incremental inserts) on two persistent worker threads handing over between operations; one child process re-building a fixed list of inputs",
        "bounds": bounds,
    });
    let code = rep.finish("model_checking", cov, vec!["schedules are explored at operation granularity: the crate has no lock, channel or spawned thread, its only thread-affine state is a recursion-guard thread-local (DESIGN section 9)".into()], args.part.as_deref());
    std::process::exit(code);
}
