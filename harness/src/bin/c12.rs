//! C12 — geometric predicates return the exact sign on well-conditioned input.
//! Exhaustive over (D+1)-subsets x query points of small exact grids x all vertex orders x
//! dyadic scale variants x {Fast, Robust(4 configs)} x {insphere, insphere_lifted, insphere_distance}.

use delaunay::geometry::kernel::{FastKernel, Kernel, RobustKernel};
use delaunay::geometry::point::Point;
use delaunay::geometry::traits::coordinate::Coordinate;
use delaunay::geometry::predicates::{InSphere, Orientation, insphere, insphere_distance, insphere_lifted, simplex_orientation};
use delaunay::geometry::robust_predicates::{RobustPredicateConfig, config_presets, robust_insphere, robust_orientation};
use rayon::prelude::*;
use serde_json::json;
use std::sync::atomic::{AtomicU64, Ordering};
use vcore::alpha::{self, permutations, subsets};
use vcore::exact;
use vcore::report::{Finding, Report, Tier, parse_args};

fn o2i(o: Orientation) -> i32 {
    match o {
        Orientation::NEGATIVE => -1,
        Orientation::DEGENERATE => 0,
        Orientation::POSITIVE => 1,
    }
}
fn s2i(s: InSphere) -> i32 {
    match s {
        InSphere::OUTSIDE => -1,
        InSphere::BOUNDARY => 0,
        InSphere::INSIDE => 1,
    }
}

struct Counters {
    evals: AtomicU64,
    tuples: AtomicU64,
    nontrivial: AtomicU64,
    strict_claims: AtomicU64,
    degenerate_claims: AtomicU64,
    not_asserted: AtomicU64,
}

fn robust_configs() -> Vec<(&'static str, RobustPredicateConfig<f64>)> {
    vec![
        ("default", RobustPredicateConfig::default()),
        ("general", config_presets::general_triangulation()),
        ("high_precision", config_presets::high_precision()),
        ("degenerate_robust", config_presets::degenerate_robust()),
    ]
}

/// generous upper bound of every tolerance any formulation / config applies to a determinant
fn tol_max(inf_norm_all: f64) -> f64 {
    1e-10 + 1e-8 * inf_norm_all
}

#[allow(clippy::too_many_arguments)]
fn check_tuple<const D: usize>(rep: &Report, cn: &Counters, simplex: &[[f64; D]], q: &[f64; D], variant: &str, do_insphere: bool) {
    let refs: Vec<&[f64]> = simplex.iter().map(|p| &p[..]).collect();
    let pts: Vec<Point<f64, D>> = simplex.iter().map(|p| Point::new(*p)).collect();
    let qp = Point::new(*q);
    cn.tuples.fetch_add(1, Ordering::Relaxed);

    // ---------- orientation ----------
    let eo = exact::orient(&refs);
    let (otol, oerr) = exact::orient_band(&refs);
    let inf_all = simplex.iter().map(|p| p.iter().map(|x| x.abs()).sum::<f64>() + p.iter().map(|x| x * x).sum::<f64>() + 1.0).fold(0.0, f64::max);
    let otolmax = tol_max(inf_all);
    let o_strict = eo.sign != 0 && eo.mag > otolmax + oerr;
    let o_degen = eo.sign == 0 && oerr < otol;
    if eo.sign != 0 {
        cn.nontrivial.fetch_add(1, Ordering::Relaxed);
    }
    let mut o_results: Vec<(String, Result<i32, String>)> = Vec::new();
    o_results.push(("simplex_orientation".into(), simplex_orientation(&pts).map(o2i).map_err(|e| e.to_string())));
    o_results.push(("FastKernel::orientation".into(), Kernel::<D>::orientation(&FastKernel::<f64>::new(), &pts).map_err(|e| e.to_string())));
    o_results.push(("RobustKernel::orientation".into(), Kernel::<D>::orientation(&RobustKernel::<f64>::new(), &pts).map_err(|e| e.to_string())));
    for (name, cfg) in robust_configs() {
        o_results.push((format!("robust_orientation[{name}]"), robust_orientation(&pts, &cfg).map(o2i).map_err(|e| e.to_string())));
    }
    cn.evals.fetch_add(o_results.len() as u64, Ordering::Relaxed);
    for (name, r) in &o_results {
        let bad = match r {
            Ok(v) => {
                if o_strict {
                    cn.strict_claims.fetch_add(1, Ordering::Relaxed);
                    *v != eo.sign
                } else if o_degen {
                    cn.degenerate_claims.fetch_add(1, Ordering::Relaxed);
                    *v != 0
                } else {
                    cn.not_asserted.fetch_add(1, Ordering::Relaxed);
                    false
                }
            }
            Err(_) => o_strict || o_degen,
        };
        if bad {
            rep.violation(Finding {
                signature: json!({"check": "orientation", "fn": name, "D": D, "variant": variant, "exact": eo.sign, "got": format!("{r:?}")}),
                description: format!("{name} returned {r:?} but the exact orientation sign is {} (|det|={:.3e}, tol<={:.3e}, err<={:.3e}) for {simplex:?}", eo.sign, eo.mag, otolmax, oerr),
                replay: json!({"D": D, "simplex": simplex.iter().map(|p| p.to_vec()).collect::<Vec<_>>(), "variant": variant}),
            });
        }
    }
    if !do_insphere {
        return;
    }

    // ---------- in-sphere ----------
    let Some(ei) = exact::insphere(&refs, q) else {
        // exactly degenerate simplex: no in-sphere claim (library may return Err or anything)
        return;
    };
    let (itol, ierr) = exact::insphere_band(&refs, q);
    let inf_q = q.iter().map(|x| x.abs()).sum::<f64>() + q.iter().map(|x| x * x).sum::<f64>() + 1.0;
    let itolmax = tol_max(inf_all.max(inf_q) * (D as f64 + 2.0));
    // claims need a well-conditioned simplex as well (orientation decides the interpretation of the sign)
    let is_vertex = simplex.iter().any(|p| p == q);
    let i_strict = o_strict && ei.sign != 0 && ei.mag > itolmax + ierr;
    let i_degen = o_strict && ei.sign == 0 && ierr < itol;
    let mut results: Vec<(String, Result<i32, String>)> = Vec::new();
    results.push(("insphere".into(), insphere(&pts, qp).map(s2i).map_err(|e| e.to_string())));
    results.push(("insphere_lifted".into(), insphere_lifted(&pts, qp).map(s2i).map_err(|e| e.to_string())));
    results.push(("insphere_distance".into(), insphere_distance(&pts, qp).map(s2i).map_err(|e| e.to_string())));
    results.push(("FastKernel::in_sphere".into(), Kernel::<D>::in_sphere(&FastKernel::<f64>::new(), &pts, &qp).map_err(|e| e.to_string())));
    results.push(("RobustKernel::in_sphere".into(), Kernel::<D>::in_sphere(&RobustKernel::<f64>::new(), &pts, &qp).map_err(|e| e.to_string())));
    for (name, cfg) in robust_configs() {
        results.push((format!("robust_insphere[{name}]"), robust_insphere(&pts, &qp, &cfg).map(s2i).map_err(|e| e.to_string())));
    }
    cn.evals.fetch_add(results.len() as u64, Ordering::Relaxed);
    let mut strict_seen: Vec<(i32, &str)> = Vec::new();
    for (name, r) in &results {
        if let Ok(v) = r {
            if *v != 0 {
                strict_seen.push((*v, name));
            }
        }
        // insphere_distance compares distances with its own tolerance; the "boundary" claim is stated
        // for determinant evaluations only, so only strict agreement is required of it.
        let degen_applies = i_degen && name != "insphere_distance";
        let bad = match r {
            Ok(v) => {
                if i_strict {
                    cn.strict_claims.fetch_add(1, Ordering::Relaxed);
                    *v != ei.sign
                } else if degen_applies {
                    cn.degenerate_claims.fetch_add(1, Ordering::Relaxed);
                    *v != 0
                } else {
                    cn.not_asserted.fetch_add(1, Ordering::Relaxed);
                    false
                }
            }
            Err(_) => i_strict || degen_applies,
        };
        if bad {
            rep.violation(Finding {
                signature: json!({"check": "insphere", "fn": name, "D": D, "variant": variant, "exact": ei.sign, "got": format!("{r:?}"), "query_is_vertex": is_vertex}),
                description: format!("{name} returned {r:?} but the exact in-sphere sign is {} (|det|={:.3e}, tol<={:.3e}, err<={:.3e}) for simplex {simplex:?} query {q:?}", ei.sign, ei.mag, itolmax, ierr),
                replay: json!({"D": D, "simplex": simplex.iter().map(|p| p.to_vec()).collect::<Vec<_>>(), "query": q.to_vec(), "variant": variant}),
            });
        }
    }
    // no two formulations / kernels may give opposite strict answers on claimed input
    if (i_strict || i_degen) && strict_seen.iter().any(|(v, _)| *v > 0) && strict_seen.iter().any(|(v, _)| *v < 0) {
        rep.violation(Finding {
            signature: json!({"check": "opposite_strict", "D": D, "variant": variant}),
            description: format!("opposite strict in-sphere answers {strict_seen:?} for simplex {simplex:?} query {q:?}"),
            replay: json!({"D": D, "simplex": simplex.iter().map(|p| p.to_vec()).collect::<Vec<_>>(), "query": q.to_vec(), "variant": variant}),
        });
    }
}

fn transform<const D: usize>(p: &[f64; D], scale: f64, shift: f64) -> [f64; D] {
    let mut r = [0.0; D];
    for i in 0..D {
        r[i] = if scale < 0.0 { (p[i] + shift) * scale } else { (p[i] + if i % 2 == 0 { shift } else { -shift / 2.0 }) * scale };
    }
    r
}

fn run_dim<const D: usize>(rep: &Report, cn: &Counters, alphabet: &[[f64; D]], all_perms: bool, variants: &[(&str, f64, f64)], with_repeats: bool) {
    let n = alphabet.len();
    let perms = permutations(D + 1);
    let perms: Vec<Vec<usize>> = if all_perms {
        perms.into_iter().map(|(p, _)| p).collect()
    } else {
        // identity, all D+1 cyclic shifts and every adjacent transposition
        let mut v: Vec<Vec<usize>> = Vec::new();
        for s in 0..=D {
            v.push((0..=D).map(|i| (i + s) % (D + 1)).collect());
        }
        for t in 0..D {
            let mut p: Vec<usize> = (0..=D).collect();
            p.swap(t, t + 1);
            v.push(p);
        }
        v.sort();
        v.dedup();
        v
    };
    let mut sets = subsets(n, D + 1);
    if with_repeats {
        // multisets with one repeated point (exactly degenerate simplices)
        for s in subsets(n, D) {
            for &r in &s {
                let mut m = s.clone();
                m.push(r);
                sets.push(m);
            }
        }
    }
    sets.par_iter().for_each(|set| {
        for (vname, scale, shift) in variants {
            let base: Vec<[f64; D]> = set.iter().map(|&i| transform(&alphabet[i], *scale, *shift)).collect();
            for (pi, perm) in perms.iter().enumerate() {
                let simplex: Vec<[f64; D]> = perm.iter().map(|&i| base[i]).collect();
                for (qi, q0) in alphabet.iter().enumerate() {
                    let q = transform(q0, *scale, *shift);
                    // orientation does not depend on q: evaluate it once per ordering
                    check_tuple::<D>(rep, cn, &simplex, &q, vname, true && (qi < n));
                    if pi == 0 && qi == 0 && set[0] == 0 {
                        rep.sample(json!({"D": D, "variant": vname, "simplex": simplex.iter().map(|p| p.to_vec()).collect::<Vec<_>>(), "query": q.to_vec()}), 12);
                    }
                }
            }
        }
    });
}

fn main() {
    let args = parse_args();
    if let Some(p) = &args.replay {
        std::process::exit(vcore::replay::generic(p));
    }
    let rep = Report::new("C12", &args);
    let n_self = exact::self_check();
    // The predicates are generic over the scalar type. Evaluate the f32 instantiations once before anything else, so
    // that state shared between instantiations (caches, statics) would be initialised by the "wrong" type; every f64
    // claim below is then made in a process that has used f32 first.
    {
        use delaunay::geometry::kernel::Kernel;
        let t: Vec<Point<f32, 2>> = vec![Point::new([0.0f32, 0.0]), Point::new([1.0, 0.0]), Point::new([0.0, 1.0])];
        let q = Point::new([0.25f32, 0.25]);
        let _ = simplex_orientation(&t);
        let _ = insphere(&t, q);
        let _ = insphere_lifted(&t, q);
        let _ = insphere_distance(&t, q);
        let _ = FastKernel::<f32>::new().orientation(&t);
        let _ = RobustKernel::<f32>::new().in_sphere(&t, &q);
    }
    let cn = Counters { evals: AtomicU64::new(0), tuples: AtomicU64::new(0), nontrivial: AtomicU64::new(0), strict_claims: AtomicU64::new(0), degenerate_claims: AtomicU64::new(0), not_asserted: AtomicU64::new(0) };
    let thorough = args.tier == Tier::Thorough;
    let full: Vec<(&str, f64, f64)> = vec![
        ("unit", 1.0, 0.0),
        ("scale2^-10", 2f64.powi(-10), 0.0),
        ("scale2^10", 2f64.powi(10), 0.0),
        ("scale2^-40", 2f64.powi(-40), 0.0),
        ("scale2^40", 2f64.powi(40), 0.0),
        ("shift16", 1.0, 16.0),
        ("scale3/8", 0.375, 0.0),
        // all-negative and non-dyadic images of the grid (row sums <= 0, pivot ratios that are not powers of two)
        ("negated", -1.0, 0.0),
        ("x-7", -7.0, 0.0),
        ("x7", 7.0, 0.0),
        ("x-7 of shifted", -7.0, 1.0),
        ("x-13/3", -13.0 / 3.0, 0.0),
    ];
    let unit_only: Vec<(&str, f64, f64)> = vec![("unit", 1.0, 0.0), ("scale2^-10", 2f64.powi(-10), 0.0), ("shift16", 1.0, 16.0), ("x-7", -7.0, 0.0), ("x-7 of shifted", -7.0, 1.0)];
    let mut bounds = serde_json::Map::new();
    // D = 2
    let g2 = alpha::grid::<2>(if thorough { 5 } else { 4 });
    run_dim::<2>(&rep, &cn, &g2, true, &full, true);
    bounds.insert("D2".into(), json!({"alphabet": format!("grid {}^2", if thorough { 5 } else { 4 }), "perms": "all", "variants": full.len(), "repeated_points": true}));
    // D = 3
    let g3 = alpha::grid::<3>(if thorough { 3 } else { 2 });
    if thorough {
        run_dim::<3>(&rep, &cn, &g3, true, &unit_only, false);
    } else {
        run_dim::<3>(&rep, &cn, &g3, true, &full, true);
    }
    bounds.insert("D3".into(), json!({"alphabet": format!("grid {}^3", if thorough { 3 } else { 2 }), "perms": "all"}));
    // D = 4, 5: cube alphabets
    let g4 = alpha::cube_alphabet::<4>();
    run_dim::<4>(&rep, &cn, &g4, thorough, if thorough { &full } else { &unit_only }, false);
    bounds.insert("D4".into(), json!({"alphabet": g4.len(), "perms": if thorough { "all" } else { "cyclic+adjacent transpositions" }}));
    let g5 = alpha::cube_alphabet::<5>();
    run_dim::<5>(&rep, &cn, &g5, thorough, if thorough { &unit_only[..] } else { &unit_only[..1] }, false);
    if !thorough {
        run_dim::<5>(&rep, &cn, &g5[..8], false, &unit_only[3..4], false);
    }
    bounds.insert("D5".into(), json!({"alphabet": g5.len(), "perms": if thorough { "all" } else { "cyclic+adjacent transpositions" }}));

    let strict = cn.strict_claims.load(Ordering::Relaxed);
    let degen = cn.degenerate_claims.load(Ordering::Relaxed);
    if strict == 0 || degen == 0 {
        vcore::report::machinery_fail("C12 vacuous: no strict or no degenerate claims were asserted");
    }
    let cov = json!({
        "evaluations": cn.evals.load(Ordering::Relaxed),
        "distinct_nontrivial": cn.nontrivial.load(Ordering::Relaxed),
        "rule": "every (D+1)-subset (plus one-repeated-point multisets) of the grid alphabet x every query point of the alphabet x vertex orders x scale variants; each ordered tuple is distinct by construction; non-trivial = exact orientation non-zero",
        "exhaustive": true,
        "tuples": cn.tuples.load(Ordering::Relaxed),
        "strict_claims_asserted": strict,
        "degenerate_claims_asserted": degen,
        "not_asserted_in_band": cn.not_asserted.load(Ordering::Relaxed),
        "oracle_self_check_tuples": n_self,
        "bounds": bounds,
    });
    let code = rep.finish("exploration", cov, vec!["exact oracle (bigint/i128 Laplace determinants) cross-checked at start-up against an independent circumcentre formulation".into(), "a-priori LU rounding bound 2^(n-1) n^3 u prod||col_j||".into()], args.part.as_deref());
    std::process::exit(code);
}
