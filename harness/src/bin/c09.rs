//! C09 — duplicate coordinates and UUIDs are rejected in every history.
//! BFS over {insert, remove, Edit-API k=1 insert/remove, repair (advanced), clone swap, serde swap,
//! mutable-view touch}; in every state a probe insertion at / near every current and former position.

use delaunay::core::delaunay_triangulation::{ConstructionOptions, DelaunayTriangulation};
use delaunay::core::triangulation::TopologyGuarantee;
use delaunay::geometry::kernel::{FastKernel, Kernel, RobustKernel};
use serde_json::{Value, json};
use std::sync::atomic::{AtomicU64, Ordering};
use vcore::alpha::{self, mk_vertex};
use vcore::dtx::{dump_digest, silence_panics, snap_of};
use vcore::exact::dist_cmp;
use vcore::explore::{Caps, Model, Stats, bfs};
use vcore::model::{self, DtI, Op, Outcome};
use vcore::report::{Finding, Report, Tier, machinery_fail, parse_args};
use vcore::snap::digest;

const TOL: f64 = 1e-10;

struct St<K: Kernel<D, Scalar = f64>, const D: usize> {
    dt: DtI<K, D>,
    /// coordinates of vertices that were removed earlier in this history
    former: Vec<[f64; D]>,
}

struct Cn {
    probes: AtomicU64,
    probes_expect_dup: AtomicU64,
    probes_expect_not_dup: AtomicU64,
    refused_perturbed_candidate: AtomicU64,
    uuid_probes: AtomicU64,
}

struct M<'a, K, const D: usize> {
    rep: &'a Report,
    cn: &'a Cn,
    kname: &'static str,
    label: String,
    alphabet: Vec<[f64; D]>,
    seed_pts: Vec<[f64; D]>,
    k1_points: Vec<[f64; D]>,
    _k: std::marker::PhantomData<K>,
}

/// coordinate vectors quoted in a diagnostic ("[1.99999999, 2e-8, -3e-8]")
fn quoted_coords<const D: usize>(dbg: &str) -> Vec<[f64; D]> {
    let mut out = Vec::new();
    let mut rest = dbg;
    while let Some(a) = rest.find('[') {
        let Some(b) = rest[a..].find(']') else { break };
        let inner = &rest[a + 1..a + b];
        let vals: Vec<f64> = inner.split(',').filter_map(|t| t.trim().parse::<f64>().ok()).collect();
        if vals.len() == D && inner.split(',').count() == D {
            out.push(std::array::from_fn(|i| vals[i]));
        }
        rest = &rest[a + b + 1..];
    }
    out
}

fn is_dup_outcome(o: &Outcome) -> bool {
    matches!(o, Outcome::Err { class, .. } | Outcome::Skipped { class, .. } if class == "DuplicateCoordinates")
}

impl<'a, K: Kernel<D, Scalar = f64> + Sync + Send, const D: usize> M<'a, K, D> {
    fn replay_json(&self, hist: &[Op], extra: Value) -> Value {
        json!({"D": D, "kernel": self.kname, "family": self.label, "alphabet": self.alphabet.iter().map(|p| p.to_vec()).collect::<Vec<_>>(), "seed_points": self.seed_pts.iter().map(|p| p.to_vec()).collect::<Vec<_>>(), "history": hist, "detail": extra})
    }

    /// invariant + probes in one state
    fn check_state(&self, s: &St<K, D>, hist: &[Op]) {
        let snap = snap_of(&s.dt);
        let last = hist.last().map(opk).unwrap_or_else(|| "seed".into());
        // invariant: live vertices pairwise >= TOL apart, UUIDs unique
        for i in 0..snap.verts.len() {
            for j in i + 1..snap.verts.len() {
                if dist_cmp(&snap.verts[i].c, &snap.verts[j].c, TOL) < 0 {
                    self.rep.violation(Finding {
                        signature: json!({"check": "live_vertices_within_tolerance", "last_op": last, "D": D}),
                        description: format!("vertices {:?} and {:?} are both present although closer than the duplicate tolerance 1e-10 (history ends with {last})", snap.verts[i].c, snap.verts[j].c),
                        replay: self.replay_json(hist, json!(null)),
                    });
                    return;
                }
                if snap.verts[i].uuid == snap.verts[j].uuid {
                    self.rep.violation(Finding { signature: json!({"check": "uuid_twice", "last_op": last, "D": D}), description: format!("uuid {} occurs twice", snap.verts[i].uuid), replay: self.replay_json(hist, json!(null)) });
                    return;
                }
            }
        }
        // probes: at q, q +- 0.5e-10, q +- 2e-10 along axis 0, for every current and former position
        let mut targets: Vec<([f64; D], bool)> = snap.verts.iter().map(|v| (v.c, true)).collect();
        targets.extend(s.former.iter().map(|c| (*c, false)));
        let mut uid = 60_000u32;
        for (q, is_current) in &targets {
            for delta in [0.0, 0.5e-10, -0.5e-10, 2e-10, -2e-10] {
                let mut p = *q;
                p[0] += delta;
                // expected by the reference model: duplicate iff some live vertex is strictly within TOL (exact)
                let near_live = snap.verts.iter().any(|v| dist_cmp(&v.c, &p, TOL) < 0);
                // stay away from the exact boundary of the tolerance ball (floating point distance evaluation)
                let ambiguous = snap.verts.iter().any(|v| {
                    let lo = dist_cmp(&v.c, &p, TOL * 0.99);
                    let hi = dist_cmp(&v.c, &p, TOL * 1.01);
                    lo >= 0 && hi < 0
                });
                if ambiguous {
                    continue;
                }
                for stats in [false, true] {
                    uid += 1;
                    self.cn.probes.fetch_add(1, Ordering::Relaxed);
                    let mut d = s.dt.clone();
                    let out = model::apply(&mut d, &Op::InsertAt { c: p.to_vec(), uid, stats }, &self.alphabet);
                    let dup = is_dup_outcome(&out);
                    if near_live {
                        self.cn.probes_expect_dup.fetch_add(1, Ordering::Relaxed);
                    } else {
                        self.cn.probes_expect_not_dup.fetch_add(1, Ordering::Relaxed);
                    }
                    if near_live && !dup {
                        self.rep.violation(Finding {
                            signature: json!({"check": "duplicate_not_refused", "last_op": last, "probe_outcome": out.class(), "D": D}),
                            description: format!("insert at {p:?} (offset {delta:e} from a live vertex) returned {} instead of the duplicate-coordinates outcome; history ends with {last}", out.class()),
                            replay: self.replay_json(hist, json!({"probe": p.to_vec(), "stats": stats})),
                        });
                        return;
                    }
                    // The crate retries a geometrically degenerate insertion at deterministically perturbed
                    // coordinates; when such a candidate lands on a live (itself perturbed) vertex the refusal names the
                    // candidate. That is a refusal because of a vertex that IS present, so it is not what the last
                    // sentence of the property forbids (first version of this check flagged it: a false alarm).
                    let refused_candidate_is_live = match &out {
                        Outcome::Err { dbg, .. } | Outcome::Skipped { dbg, .. } => quoted_coords::<D>(dbg).iter().any(|c| snap.verts.iter().any(|v| dist_cmp(&v.c, c, TOL) < 0)),
                        _ => false,
                    };
                    if !near_live && dup && refused_candidate_is_live {
                        self.cn.refused_perturbed_candidate.fetch_add(1, Ordering::Relaxed);
                    }
                    if !near_live && dup && !refused_candidate_is_live {
                        self.rep.violation(Finding {
                            signature: json!({"check": "refused_without_live_duplicate", "last_op": last, "target": if *is_current { "current" } else { "former" }, "D": D}),
                            description: format!("insert at {p:?} was refused as duplicate coordinates although no live vertex is within the tolerance (target was a {} position; nearest live vertex {:?}; outcome {out:?})", if *is_current { "current" } else { "former" }, snap.verts.iter().map(|v| (v.c, (0..D).map(|k| (v.c[k] - p[k]).powi(2)).sum::<f64>().sqrt())).min_by(|a, b| a.1.total_cmp(&b.1))),
                            replay: self.replay_json(hist, json!({"probe": p.to_vec(), "stats": stats})),
                        });
                        return;
                    }
                }
            }
        }
        // a live UUID re-used at a fresh position must give the duplicate-UUID error
        for of in 0..snap.verts.len().min(3) {
            self.cn.uuid_probes.fetch_add(1, Ordering::Relaxed);
            let mut d = s.dt.clone();
            // alphabet point that is not a live position, if any
            let free = (0..self.alphabet.len()).find(|&p| !snap.verts.iter().any(|v| dist_cmp(&v.c, &self.alphabet[p], TOL * 4.0) < 0));
            let Some(p) = free else { break };
            let out = model::apply(&mut d, &Op::InsertDupUuid { p, of }, &self.alphabet);
            let ok = matches!(&out, Outcome::Err { dbg, .. } if dbg.contains("DuplicateUuid"));
            if !ok {
                self.rep.violation(Finding { signature: json!({"check": "duplicate_uuid_not_refused", "last_op": last, "probe_outcome": out.class(), "D": D}), description: format!("insert re-using a live UUID returned {out:?} instead of the duplicate-UUID error"), replay: self.replay_json(hist, json!({"of": of, "p": p})) });
                return;
            }
        }
    }
}

fn opk(op: &Op) -> String {
    let s = format!("{op:?}");
    s.split(|c: char| c == ' ' || c == '(' || c == '{').next().unwrap_or("?").to_string()
}

impl<'a, K: Kernel<D, Scalar = f64> + Sync + Send, const D: usize> Model for M<'a, K, D>
where
    DtI<K, D>: Send + Sync,
{
    type State = St<K, D>;
    type Op = Op;
    fn key(&self, s: &St<K, D>) -> u128 {
        dump_digest(&s.dt) ^ digest(&format!("{:?}", s.former.iter().map(|c| c.map(f64::to_bits)).collect::<Vec<_>>()))
    }
    fn ops(&self, s: &St<K, D>, hist: &[Op]) -> Vec<Op> {
        let depth = hist.len() as u32;
        let mut v = Vec::new();
        for p in 0..self.alphabet.len() {
            v.push(Op::Insert { p, uid: depth * 64 + p as u32, stats: p % 2 == 0 });
        }
        let nv = s.dt.number_of_vertices();
        for i in 0..nv {
            v.push(Op::Remove { v: i });
            if s.dt.number_of_cells() > 0 {
                v.push(Op::K1Remove { v: i });
            }
        }
        for c in 0..s.dt.number_of_cells().min(4) {
            for (i, p) in self.k1_points.iter().enumerate() {
                // harness precondition: the Edit API itself is not asked to create a duplicate
                if s.dt.vertices().any(|(_, x)| dist_cmp(x.point().coords(), p, TOL * 4.0) < 0) {
                    continue;
                }
                v.push(Op::K1Insert { cell: c, c: p.to_vec(), uid: 3000 + depth * 8 + i as u32 });
            }
        }
        if s.dt.number_of_cells() > 0 {
            v.push(Op::RepairAdvanced);
        }
        v.push(Op::CloneSwap);
        v.push(Op::SerdeSwap);
        v.push(Op::TouchMut);
        if s.dt.number_of_cells() >= 3 {
            v.push(Op::RepairLocalFacets { a: 0, b: 1, c: 2 });
        }
        v
    }
    fn step(&self, s: &St<K, D>, op: &Op, hist: &[Op]) -> Option<St<K, D>> {
        let mut dt = s.dt.clone();
        let removed_coords: Option<[f64; D]> = match op {
            Op::Remove { v } | Op::K1Remove { v } => s.dt.vertices().nth(*v).map(|(_, x)| *x.point().coords()),
            _ => None,
        };
        let out = model::apply(&mut dt, op, &self.alphabet);
        self.rep.outcome(&format!("{}:{}", opk(op), out.class()));
        match out {
            Outcome::Ok { .. } => {
                let mut former = s.former.clone();
                if let Some(c) = removed_coords {
                    former.push(c);
                }
                let n = St { dt, former };
                let mut h = hist.to_vec();
                h.push(op.clone());
                self.check_state(&n, &h);
                if hist.len() % 2 == 1 {
                    self.rep.sample(json!({"D": D, "kernel": self.kname, "history": h.iter().map(|o| format!("{o:?}")).collect::<Vec<_>>(), "vertices": n.dt.number_of_vertices(), "former_positions": n.former.len()}), 8);
                }
                Some(n)
            }
            _ => None,
        }
    }
}

#[allow(clippy::too_many_arguments)]
fn run<K, const D: usize>(rep: &Report, cn: &Cn, kname: &'static str, label: &str, alphabet: Vec<[f64; D]>, seed_pts: &[[f64; D]], depth: usize, total: &mut Stats, bounds: &mut Vec<Value>)
where
    K: Kernel<D, Scalar = f64> + Sync + Send,
    DtI<K, D>: Send + Sync,
{
    let k1_points: Vec<[f64; D]> = vec![std::array::from_fn(|i| 0.3 + 0.05 * i as f64), std::array::from_fn(|i| 0.7 - 0.05 * i as f64)];
    let m = M::<K, D> { rep, seed_pts: seed_pts.to_vec(), cn, kname, label: label.to_string(), alphabet, k1_points, _k: std::marker::PhantomData };
    let base: DtI<K, D> = if seed_pts.is_empty() {
        DelaunayTriangulation::with_empty_kernel(K::default())
    } else {
        let vs: Vec<_> = seed_pts.iter().enumerate().map(|(i, c)| mk_vertex::<i32, D>(*c, 0x9000 + i as u128, Some(1000 + i as i32))).collect();
        // the family label names the constructor variant: the constructors have separate bulk-insertion loops and
        // preprocessing paths, each of which has to leave the duplicate-detection index describing every vertex
        let opts = if label.contains("[eps1e-12]") {
            ConstructionOptions::default().with_dedup_policy(delaunay::core::delaunay_triangulation::DedupPolicy::Epsilon { tolerance: 1e-12 })
        } else if label.contains("[exact,input]") {
            ConstructionOptions::default().with_dedup_policy(delaunay::core::delaunay_triangulation::DedupPolicy::Exact).with_insertion_order(delaunay::core::delaunay_triangulation::InsertionOrderStrategy::Input)
        } else {
            ConstructionOptions::default()
        };
        if label.contains("[stats]") {
            match DelaunayTriangulation::with_topology_guarantee_and_options_with_construction_statistics(&K::default(), &vs, TopologyGuarantee::DEFAULT, opts) {
                Ok((d, _)) => d,
                Err(_) => return,
            }
        } else {
            match DelaunayTriangulation::with_topology_guarantee_and_options(&K::default(), &vs, TopologyGuarantee::DEFAULT, opts) {
                Ok(d) => d,
                Err(_) => return,
            }
        }
    };
    let s0 = St { dt: base, former: vec![] };
    m.check_state(&s0, &[]);
    let st = bfs(&m, vec![(s0, vec![])], depth, &Caps { max_states_per_level: 2_000_000, wall_s: 0.0 });
    bounds.push(json!({"D": D, "kernel": kname, "family": label, "alphabet": m.alphabet.len(), "depth": st.depth_completed, "states": st.states, "transitions": st.transitions, "levels": st.level_sizes, "caps_hit": st.caps_hit}));
    total.states += st.states;
    total.transitions += st.transitions;
    total.caps_hit.extend(st.caps_hit);
}

fn both<const D: usize>(rep: &Report, cn: &Cn, label: &str, alphabet: Vec<[f64; D]>, seed: &[[f64; D]], depth: usize, total: &mut Stats, bounds: &mut Vec<Value>) {
    run::<FastKernel<f64>, D>(rep, cn, "fast", label, alphabet.clone(), seed, depth, total, bounds);
    run::<RobustKernel<f64>, D>(rep, cn, "robust", label, alphabet, seed, depth, total, bounds);
}

fn main() {
    let args = parse_args();
    if let Some(p) = &args.replay {
        std::process::exit(vcore::replay::generic(p));
    }
    silence_panics();
    let rep = Report::new("C09", &args);
    let thorough = args.tier == Tier::Thorough;
    let x = usize::from(thorough);
    let cn = Cn { probes: AtomicU64::new(0), probes_expect_dup: AtomicU64::new(0), probes_expect_not_dup: AtomicU64::new(0), refused_perturbed_candidate: AtomicU64::new(0), uuid_probes: AtomicU64::new(0) };
    let mut total = Stats::default();
    let mut bounds = Vec::new();
    // small alphabets that contain on-edge / collinear points (perturbation retries store displaced coordinates)
    let a2: Vec<[f64; 2]> = vec![[0.0, 0.0], [2.0, 0.0], [0.0, 2.0], [1.0, 0.0], [1.0, 1.0], [2.0, 2.0]];
    both::<2>(&rep, &cn, "from empty", a2.clone(), &[], 5 + x, &mut total, &mut bounds);
    both::<2>(&rep, &cn, "from constructed seed", a2.clone(), &[[0.0, 0.0], [2.0, 0.0], [0.0, 2.0], [2.0, 2.0], [0.5, 1.25]], 4 + x, &mut total, &mut bounds);
    let a3: Vec<[f64; 3]> = vec![[0.0, 0.0, 0.0], [2.0, 0.0, 0.0], [0.0, 2.0, 0.0], [0.0, 0.0, 2.0], [1.0, 0.0, 0.0], [0.5, 0.5, 0.5]];
    let seed2b: Vec<[f64; 2]> = vec![[0.0, 0.0], [2.0, 0.0], [0.0, 2.0], [2.0, 2.0], [0.5, 1.25], [1.5, 0.5], [1.0, 1.75]];
    for variant in ["[stats]", "[eps1e-12]", "[stats][eps1e-12]", "[exact,input]"] {
        both::<2>(&rep, &cn, &format!("from constructed seed {variant}"), a2.clone(), &seed2b, 2 + x, &mut total, &mut bounds);
    }
    both::<3>(&rep, &cn, "from constructed seed [stats]", a3.clone(), &[[0.0, 0.0, 0.0], [2.0, 0.0, 0.0], [0.0, 2.0, 0.0], [0.0, 0.0, 2.0], [0.4, 0.3, 0.2], [1.0, 0.5, 0.25]], 2, &mut total, &mut bounds);
    both::<3>(&rep, &cn, "from constructed seed", a3.clone(), &[[0.0, 0.0, 0.0], [2.0, 0.0, 0.0], [0.0, 2.0, 0.0], [0.0, 0.0, 2.0], [0.4, 0.3, 0.2]], 3 + x, &mut total, &mut bounds);
    let a4: Vec<[f64; 4]> = alpha::cube_alphabet::<4>().into_iter().take(7).collect();
    let s4: Vec<[f64; 4]> = a4.iter().take(6).copied().collect();
    both::<4>(&rep, &cn, "from constructed seed", a4.clone(), &s4, 2 + x, &mut total, &mut bounds);
    if thorough {
        let a5: Vec<[f64; 5]> = alpha::cube_alphabet::<5>().into_iter().take(8).collect();
        let s5: Vec<[f64; 5]> = a5.iter().take(7).copied().collect();
        both::<5>(&rep, &cn, "from constructed seed", a5, &s5, 1, &mut total, &mut bounds);
    }
    let (pd, pn) = (cn.probes_expect_dup.load(Ordering::Relaxed), cn.probes_expect_not_dup.load(Ordering::Relaxed));
    if pd < 1000 || pn < 1000 {
        machinery_fail(&format!("C09 vacuous: {pd} duplicate probes, {pn} non-duplicate probes"));
    }
    let cov = json!({
        "states": total.states,
        "transitions": total.transitions,
        "traces_validated_against_impl": total.transitions + cn.probes.load(Ordering::Relaxed),
        "probe_insertions": cn.probes.load(Ordering::Relaxed),
        "probes_expected_duplicate": pd,
        "probes_expected_not_duplicate": pn,
        "uuid_probes": cn.uuid_probes.load(Ordering::Relaxed),
        "refusals_of_a_perturbed_candidate_that_coincides_with_a_live_vertex": cn.refused_perturbed_candidate.load(Ordering::Relaxed),
        "exhaustive": total.caps_hit.is_empty(),
        "rule": "BFS over {insert, remove, Edit k=1 insert at 2 fresh points, Edit k=1 remove, repair_advanced, clone swap, serde swap, mutable-view touch}; in every reached state: exact pairwise-distance invariant, and on a clone a probe insert (both entry points) at q, q+-0.5e-10, q+-2e-10 for every current (stored) and former vertex position, compared with the reference model 'duplicate iff a live vertex is strictly within 1e-10 (exact arithmetic)'; plus duplicate-UUID probes",
        "bounds": bounds,
    });
    let code = rep.finish("model_checking", cov, vec!["probes within 1% of the tolerance boundary are skipped (floating-point distance evaluation)".into(), "a refusal whose diagnostic names a (perturbed retry) candidate that is exactly within the tolerance of a live vertex counts as a refusal of a live duplicate".into()], args.part.as_deref());
    std::process::exit(code);
}
