//! C18 — simplex measures match exact geometry.

use delaunay::core::triangulation::TopologyGuarantee;
use delaunay::geometry::kernel::FastKernel;
use delaunay::geometry::point::Point;
use delaunay::geometry::quality::{normalized_volume, radius_ratio};
use delaunay::geometry::traits::coordinate::Coordinate;
use delaunay::geometry::util::circumsphere::{circumcenter, circumradius};
use delaunay::geometry::util::measures::{facet_measure, inradius, simplex_volume};
use rayon::prelude::*;
use serde_json::{Value, json};
use std::sync::atomic::{AtomicU64, Ordering};
use vcore::alpha::{self, permutations, subsets};
use vcore::corpus;
use vcore::dtx::{guarded, silence_panics};
use vcore::exact;
use vcore::report::{Finding, Report, Tier, machinery_fail, parse_args};

const REL: f64 = 1e-9;
const FLOOR: f64 = 1e-9;
/// a value of an exactly degenerate simplex counts as numerically zero below this fraction of the natural scale
/// (Gram-determinant routes resolve zero only to about sqrt(machine epsilon))
const ZERO_REL: f64 = 1e-6;

struct Cn {
    simplices: AtomicU64,
    evals: AtomicU64,
    asserted: AtomicU64,
    not_asserted: AtomicU64,
    degenerate: AtomicU64,
    zero_ok: AtomicU64,
}

fn fact(n: usize) -> f64 {
    (1..=n).map(|x| x as f64).product()
}

struct ExactMeasures {
    degenerate: bool,
    volume: f64,
    facets: Vec<f64>,
    circumcenter: Vec<f64>,
    circumradius: f64,
    inradius: f64,
    avg_edge: f64,
}

fn exact_measures<const D: usize>(p: &[[f64; D]]) -> ExactMeasures {
    let refs: Vec<&[f64]> = p.iter().map(|x| &x[..]).collect();
    let o = exact::orient(&refs);
    let volume = o.mag / fact(D);
    let facets: Vec<f64> = (0..=D)
        .map(|omit| {
            let f: Vec<&[f64]> = refs.iter().enumerate().filter(|(i, _)| *i != omit).map(|(_, r)| *r).collect();
            if D == 1 { 1.0 } else { exact::gram_det(&f).mag.max(0.0).sqrt() / fact(D - 1) }
        })
        .collect();
    let (cc, r) = if o.sign != 0 { exact::circumsphere(&refs).map(|(c, r)| (c.iter().enumerate().map(|(i, x)| x + p[0][i]).collect(), r)).unwrap_or((vec![], f64::NAN)) } else { (vec![], f64::NAN) };
    let surface: f64 = facets.iter().sum();
    let mut el = 0.0;
    let mut ne = 0.0;
    for i in 0..=D {
        for j in i + 1..=D {
            el += (0..D).map(|k| (p[i][k] - p[j][k]).powi(2)).sum::<f64>().sqrt();
            ne += 1.0;
        }
    }
    ExactMeasures { degenerate: o.sign == 0, volume, facets, circumcenter: cc, circumradius: r, inradius: if surface > 0.0 { D as f64 * volume / surface } else { f64::NAN }, avg_edge: el / ne }
}

fn rel_ok(got: f64, want: f64) -> bool {
    (got - want).abs() <= REL * want.abs().max(FLOOR)
}

#[derive(Clone, Debug)]
struct LibMeasures {
    volume: Result<f64, String>,
    circumradius: Result<f64, String>,
    circumcenter: Result<Vec<f64>, String>,
    inradius: Result<f64, String>,
    facets: Vec<Result<f64, String>>,
    radius_ratio: Option<Result<f64, String>>,
    normalized_volume: Option<Result<f64, String>>,
}

fn lib_measures<const D: usize>(p: &[[f64; D]], with_quality: bool) -> Result<LibMeasures, String> {
    guarded(|| {
        let pts: Vec<Point<f64, D>> = p.iter().map(|c| Point::new(*c)).collect();
        let facets = (0..=D)
            .map(|omit| {
                let f: Vec<Point<f64, D>> = pts.iter().enumerate().filter(|(i, _)| *i != omit).map(|(_, q)| *q).collect();
                facet_measure(&f).map_err(|e| format!("{e:?}"))
            })
            .collect();
        let (rr, nv) = if with_quality {
            match corpus::build::<FastKernel<f64>, D>(p, TopologyGuarantee::Pseudomanifold) {
                Some(dt) if dt.number_of_cells() == 1 => {
                    let ck = dt.cells().next().unwrap().0;
                    (Some(radius_ratio(dt.as_triangulation(), ck).map_err(|e| format!("{e:?}"))), Some(normalized_volume(dt.as_triangulation(), ck).map_err(|e| format!("{e:?}"))))
                }
                _ => (None, None),
            }
        } else {
            (None, None)
        };
        LibMeasures {
            volume: simplex_volume(&pts).map_err(|e| format!("{e:?}")),
            circumradius: circumradius(&pts).map_err(|e| format!("{e:?}")),
            circumcenter: circumcenter(&pts).map(|c| c.coords().to_vec()).map_err(|e| format!("{e:?}")),
            inradius: inradius(&pts).map_err(|e| format!("{e:?}")),
            facets,
            radius_ratio: rr,
            normalized_volume: nv,
        }
    })
}

fn check_simplex<const D: usize>(rep: &Report, cn: &Cn, base: &[[f64; D]], perms: &[Vec<usize>], family: &str) {
    cn.simplices.fetch_add(1, Ordering::Relaxed);
    let replay = |p: &[[f64; D]], extra: Value| json!({"D": D, "family": family, "simplex": p.iter().map(|x| x.to_vec()).collect::<Vec<_>>(), "detail": extra});
    let em0 = exact_measures(base);
    if em0.degenerate {
        cn.degenerate.fetch_add(1, Ordering::Relaxed);
    }
    // variants: identity, permutations, translations, dyadic scalings
    let mut variants: Vec<(String, Vec<[f64; D]>, f64)> = Vec::new(); // (name, points, scale factor)
    for (i, perm) in perms.iter().enumerate() {
        variants.push((if i == 0 { "identity".into() } else { "permuted".into() }, perm.iter().map(|&k| base[k]).collect(), 1.0));
    }
    let shift: [f64; D] = std::array::from_fn(|i| [7.0, -3.0, 5.0, -2.0, 4.0][i]);
    variants.push(("translated".into(), base.iter().map(|p| std::array::from_fn(|i| p[i] + shift[i])).collect(), 1.0));
    if D <= 3 {
        variants.push(("translated1024".into(), base.iter().map(|p| std::array::from_fn(|i| p[i] + 1024.0)).collect(), 1.0));
        // far from the origin relative to the simplex size (distance / edge about 1e6): degeneracy thresholds that scale
        // with vertex positions instead of edge lengths show up here; coordinates stay exactly representable
        variants.push(("translated1048576".into(), base.iter().map(|p| std::array::from_fn(|i| p[i] + 1048576.0 * (1.0 + i as f64))).collect(), 1.0));
    }
    // 2^30 away (every dimension): squared coordinates no longer fit in 53 bits, so any formula that is not evaluated
    // relative to a vertex of the simplex cancels catastrophically; the coordinates themselves stay exact
    variants.push(("translated1073741824".into(), base.iter().map(|p| std::array::from_fn(|i| p[i] + 1073741824.0 * if i % 2 == 0 { 1.0 } else { -1.0 })).collect(), 1.0));
    for s in [2f64.powi(10), 2f64.powi(-10)] {
        variants.push((format!("scaled{s:e}"), base.iter().map(|p| std::array::from_fn(|i| p[i] * s)).collect(), s));
    }
    for (vname, pts, scale) in &variants {
        cn.evals.fetch_add(1, Ordering::Relaxed);
        let em = exact_measures(pts);
        let lm = match lib_measures(pts, vname == "identity" && !em.degenerate) {
            Ok(l) => l,
            Err(p) => {
                rep.violation(Finding { signature: json!({"check": "measure_panicked", "D": D}), description: format!("a measure function panicked on {pts:?}: {p}"), replay: replay(pts, json!(null)) });
                continue;
            }
        };
        let sig = |check: &str, f: &str| json!({"check": check, "fn": f, "D": D, "variant": vname.split(|c: char| c.is_ascii_digit()).next().unwrap_or(vname)});
        if em.degenerate {
            // exactly degenerate: radii / centre must be errors; a volume must be (numerically) zero or an error
            let mut garbage: Vec<String> = Vec::new();
            // "numerically zero" is judged against the natural scale of the simplex (its diameter)
            let diam = pts.iter().flat_map(|a| pts.iter().map(move |b| (0..D).map(|k| (a[k] - b[k]).powi(2)).sum::<f64>().sqrt())).fold(0.0, f64::max);
            let _ = scale;
            // The statement is literal here: a flat simplex must not come back with a finite non-zero measure.
            // (for a flat facet Ok(0) is tolerated: two coincident points do have distance 0; an earlier version of this check tolerated values
            // below 1e-6 of the natural scale, which hid the scale-dependent defect recorded in DESIGN 12.)
            let _ = (diam, ZERO_REL);
            if let Ok(v) = &lm.volume {
                // (the unchanged crate never answers Ok(0) here either: zero Gram determinants are errors)
                garbage.push(format!("simplex_volume = {v:e}"));
                if *v == 0.0 {
                    cn.zero_ok.fetch_add(1, Ordering::Relaxed);
                }
            }
            if let Ok(r) = &lm.circumradius {
                garbage.push(format!("circumradius = {r:e}"));
            }
            if let Ok(c) = &lm.circumcenter {
                garbage.push(format!("circumcenter = {c:?}"));
            }
            if let Ok(r) = &lm.inradius {
                garbage.push(format!("inradius = {r:e}"));
            }
            // facets of a flat simplex: a flat facet must not have a finite non-zero measure either, and a
            // non-flat facet still has to match its exact measure
            if D >= 2 {
                for (i, f) in lm.facets.iter().enumerate() {
                    let want = em.facets[i];
                    match f {
                        Ok(v) if want == 0.0 && *v != 0.0 => garbage.push(format!("facet_measure = {v:e} (facet {i} is flat)")),
                        Ok(v) if want >= FLOOR && !rel_ok(*v, want) => garbage.push(format!("facet_measure = {v:e}, exact {want:e} (facet {i})")),
                        Err(e) if want >= FLOOR * scale.max(1.0) => garbage.push(format!("facet_measure = Err({e}) although facet {i} has exact measure {want:e}")),
                        _ => {}
                    }
                }
            }
            // one finding per offending function, so that a listed finding for one function never hides another
            let mut seen_fn: Vec<String> = Vec::new();
            for g in &garbage {
                let f = g.split(' ').next().unwrap_or("?").to_string();
                if seen_fn.contains(&f) {
                    continue;
                }
                seen_fn.push(f.clone());
                rep.violation(Finding { signature: sig("degenerate_not_reported", &f), description: format!("exactly degenerate simplex {pts:?}: {g} instead of an error (all: {garbage:?})"), replay: replay(pts, json!(null)) });
            }
            continue;
        }
        // side condition: only simplices whose exact measures are >= FLOOR
        let facets_ok = em.facets.iter().all(|f| *f >= FLOOR);
        if em.volume < FLOOR || !facets_ok || !(em.circumradius.is_finite()) || em.inradius < FLOOR {
            cn.not_asserted.fetch_add(1, Ordering::Relaxed);
            continue;
        }
        cn.asserted.fetch_add(1, Ordering::Relaxed);
        // "small relative error" is relative to the conditioning of the input: a simplex of diameter d at distance m
        // from the origin cannot be resolved better than about eps * m / d (its absolute circumcentre is not even
        // representable more finely), so far translations get that allowance on top of 1e-9
        let maxabs = pts.iter().flat_map(|p| p.iter().map(|x| x.abs())).fold(0.0, f64::max);
        let diam_nd = pts.iter().flat_map(|a| pts.iter().map(move |b| (0..D).map(|k| (a[k] - b[k]).powi(2)).sum::<f64>().sqrt())).fold(0.0, f64::max);
        let rel_tol = REL.max(64.0 * f64::EPSILON * maxabs / diam_nd.max(f64::MIN_POSITIVE));
        let cmp = |f: &str, got: &Result<f64, String>, want: f64| match got {
            Ok(g) if (*g - want).abs() <= rel_tol * want.abs().max(FLOOR) => {}
            other => {
                rep.violation(Finding { signature: sig("measure_wrong", f), description: format!("{f}({pts:?}) = {other:?}, exact value {want:e}"), replay: replay(pts, json!({"exact": want})) });
            }
        };
        cmp("simplex_volume", &lm.volume, em.volume);
        cmp("circumradius", &lm.circumradius, em.circumradius);
        cmp("inradius", &lm.inradius, em.inradius);
        for (i, f) in lm.facets.iter().enumerate() {
            if D >= 2 {
                cmp("facet_measure", f, em.facets[i]);
            }
        }
        match &lm.circumcenter {
            Ok(c) if c.iter().zip(em.circumcenter.iter()).all(|(a, b)| (a - b).abs() <= rel_tol * (em.circumradius + b.abs()).max(FLOOR)) => {}
            other => {
                rep.violation(Finding { signature: sig("measure_wrong", "circumcenter"), description: format!("circumcenter({pts:?}) = {other:?}, exact {:?}", em.circumcenter), replay: replay(pts, json!(null)) });
            }
        }
        if let Some(rr) = &lm.radius_ratio {
            cmp("radius_ratio", rr, em.circumradius / em.inradius);
        }
        if let Some(nv) = &lm.normalized_volume {
            cmp("normalized_volume", nv, em.volume / em.avg_edge.powi(D as i32));
        }
        // scaling law / invariance against the base simplex
        if vname != "identity" {
            let want_v = em0.volume * scale.powi(D as i32);
            if want_v >= FLOOR && em0.volume >= FLOOR {
                cmp("simplex_volume(law)", &lm.volume, want_v);
                cmp("circumradius(law)", &lm.circumradius, em0.circumradius * scale);
                cmp("inradius(law)", &lm.inradius, em0.inradius * scale);
            }
        }
    }
}

fn run_dim<const D: usize>(rep: &Report, cn: &Cn, family: &str, alphabet: &[[f64; D]], all_perms: bool, stride: usize, bounds: &mut Vec<Value>) {
    let perms: Vec<Vec<usize>> = if all_perms {
        permutations(D + 1).into_iter().map(|(p, _)| p).collect()
    } else {
        let mut v: Vec<Vec<usize>> = (0..=D).map(|s| (0..=D).map(|i| (i + s) % (D + 1)).collect()).collect();
        let mut t: Vec<usize> = (0..=D).collect();
        t.swap(0, 1);
        v.push(t);
        v
    };
    let sets: Vec<Vec<usize>> = subsets(alphabet.len(), D + 1).into_iter().step_by(stride).collect();
    sets.par_iter().for_each(|s| {
        let base: Vec<[f64; D]> = s.iter().map(|&i| alphabet[i]).collect();
        check_simplex(rep, cn, &base, &perms, family);
    });
    if let Some(s) = sets.first() {
        rep.sample(json!({"D": D, "family": family, "simplex": s.iter().map(|&i| alphabet[i].to_vec()).collect::<Vec<_>>()}), 8);
    }
    bounds.push(json!({"D": D, "family": family, "alphabet": alphabet.len(), "simplices": sets.len(), "vertex_orders": perms.len(), "stride": stride}));
}

fn main() {
    let args = parse_args();
    if let Some(p) = &args.replay {
        std::process::exit(vcore::replay::generic(p));
    }
    silence_panics();
    let rep = Report::new("C18", &args);
    let thorough = args.tier == Tier::Thorough;
    let cn = Cn { simplices: AtomicU64::new(0), evals: AtomicU64::new(0), asserted: AtomicU64::new(0), not_asserted: AtomicU64::new(0), degenerate: AtomicU64::new(0), zero_ok: AtomicU64::new(0) };
    let mut bounds = Vec::new();
    run_dim::<1>(&rep, &cn, "grid 0..7", &alpha::grid::<1>(8), true, 1, &mut bounds);
    run_dim::<2>(&rep, &cn, "G2(4)", &alpha::grid::<2>(4), true, 1, &mut bounds);
    run_dim::<3>(&rep, &cn, "G3(3)", &alpha::grid::<3>(3), thorough, if thorough { 1 } else { 3 }, &mut bounds);
    run_dim::<4>(&rep, &cn, "cube alphabet", &alpha::cube_alphabet::<4>(), thorough, 1, &mut bounds);
    run_dim::<4>(&rep, &cn, "{0,1}^4", &alpha::grid::<4>(2), false, if thorough { 1 } else { 5 }, &mut bounds);
    run_dim::<5>(&rep, &cn, "cube alphabet", &alpha::cube_alphabet::<5>(), thorough, 1, &mut bounds);
    run_dim::<5>(&rep, &cn, "{0,1}^5", &alpha::grid::<5>(2), false, if thorough { 7 } else { 101 }, &mut bounds);
    let (a, d) = (cn.asserted.load(Ordering::Relaxed), cn.degenerate.load(Ordering::Relaxed));
    if a < 10_000 || d < 500 {
        machinery_fail(&format!("C18 vacuous: {a} asserted evaluations, {d} degenerate simplices"));
    }
    let cov = json!({
        "evaluations": cn.evals.load(Ordering::Relaxed),
        "distinct_nontrivial": a,
        "rule": "every (D+1)-subset (strided where stated) of the per-dimension integer alphabets, degenerate ones included, x vertex orders (all for D<=2 and in thorough; cyclic + one transposition otherwise) x translations by (7,-3,5,-2,4) and 1024 (D<=3) x scalings by 2^+-10; each evaluated through simplex_volume, facet_measure (every facet), circumcenter, circumradius, inradius, radius_ratio, normalized_volume against exact big-integer Gram / Cramer values; non-trivial = evaluations on which accuracy was asserted (all exact measures >= 1e-9)",
        "exhaustive": true,
        "simplices": cn.simplices.load(Ordering::Relaxed),
        "asserted": a,
        "not_asserted_below_floor": cn.not_asserted.load(Ordering::Relaxed),
        "exactly_degenerate_simplices": d,
        "degenerate_volume_returned_exact_zero": cn.zero_ok.load(Ordering::Relaxed),
        "bounds": bounds,
    });
    let code = rep.finish("exploration", cov, vec!["relative tolerance 1e-9; nothing asserted between 0 and 1e-9 (the crate's absolute degeneracy thresholds)".into()], args.part.as_deref());
    std::process::exit(code);
}
