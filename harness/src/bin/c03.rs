//! C03 — failed or skipped mutations leave the triangulation exactly as it was.
//! Fault enumeration: every op of the mutation alphabet in every explored state (natural failures) and
//! every failpoint site x hit index x error flavour (injected failures, one at a time), with a
//! differential-future oracle against a pristine clone.

use delaunay::core::delaunay_triangulation::{ConstructionOptions, DelaunayTriangulation};
use delaunay::core::triangulation::TopologyGuarantee;
use delaunay::geometry::kernel::{FastKernel, Kernel, RobustKernel};
use delaunay::verif_hooks as fp;
use serde_json::{Value, json};
use std::collections::BTreeMap;
use std::sync::Mutex;
use std::sync::atomic::{AtomicU64, Ordering};
use vcore::alpha::{self, mk_vertex};
use vcore::dtx::{dump_digest, fingerprint, reference_verdict, silence_panics};
use vcore::explore::{Caps, Model, Stats, bfs};
use vcore::model::{self, DtI, Op, Outcome};
use vcore::report::{Finding, Report, Tier, machinery_fail, parse_args};

struct St<K: Kernel<D, Scalar = f64>, const D: usize> {
    dt: DtI<K, D>,
}

struct Counters {
    natural_failures: AtomicU64,
    injected_runs: AtomicU64,
    injected_surfaced: AtomicU64,
    injected_absorbed: AtomicU64,
    injected_not_fired: AtomicU64,
    futures: AtomicU64,
    sites: Mutex<BTreeMap<String, u64>>,
}

struct M<'a, K, const D: usize> {
    rep: &'a Report,
    cn: &'a Counters,
    kname: &'static str,
    label: String,
    alphabet: Vec<[f64; D]>,
    seed_pts: Vec<[f64; D]>,
    k1_points: Vec<[f64; D]>,
    with_flips: bool,
    inject_max_depth: Option<usize>,
    max_hits_per_site: u32,
    _k: std::marker::PhantomData<K>,
}

impl<'a, K: Kernel<D, Scalar = f64> + Sync + Send, const D: usize> M<'a, K, D> {
    fn replay_json(&self, hist: &[Op], op: &Op, inj: Option<(&str, u32, u8)>, follow: Option<&Op>) -> Value {
        json!({"D": D, "kernel": self.kname, "family": self.label, "alphabet": self.alphabet.iter().map(|p| p.to_vec()).collect::<Vec<_>>(), "seed_points": self.seed_pts.iter().map(|p| p.to_vec()).collect::<Vec<_>>(), "history": hist, "op": op,
               "inject": inj.map(|(s, n, f)| json!({"site": s, "hit": n, "flavor": f})), "follow_up": follow})
    }

    fn follow_ups(&self, dt: &DtI<K, D>, depth: u32, full: bool) -> Vec<Op> {
        let mut v = Vec::new();
        let n = self.alphabet.len();
        // a rotating window of the alphabet keeps the menu small while every point is used somewhere
        let take = if full { n.min(5) } else { 2 };
        for i in 0..take {
            let p = (depth as usize * 3 + i * 2) % n;
            v.push(Op::Insert { p, uid: 5000 + depth * 64 + p as u32, stats: i % 2 == 1 });
        }
        let nv = dt.number_of_vertices();
        for i in 0..nv.min(if full { 3 } else { 1 }) {
            v.push(Op::Remove { v: (depth as usize + i) % nv });
        }
        if dt.number_of_cells() > 0 {
            v.push(Op::Repair);
        }
        v
    }

    /// Oracle for a failed call: fingerprint unchanged and every follow-up behaves as on the pristine clone.
    /// Returns false if a violation was recorded.
    fn check_unchanged(&self, before: &DtI<K, D>, after: &DtI<K, D>, hist: &[Op], op: &Op, out: &Outcome, inj: Option<(&str, u32, u8)>) -> bool {
        let sig_base = |check: &str, extra: Value| {
            let _ = &extra;
            match inj {
                Some((site, _, _)) => json!({"check": check, "op": op_class(op), "injected_area": site.split('.').next().unwrap_or(site)}),
                None => json!({"check": check, "op": op_class(op), "natural_outcome": out.class()}),
            }
        };
        let (fb, fa) = (fingerprint(before), fingerprint(after));
        if fb != fa {
            let (sb, sa) = (vcore::dtx::snap_of(before), vcore::dtx::snap_of(after));
            let what = if sb.n_vertices() != sa.n_vertices() {
                "vertex_count"
            } else if sb.n_cells() != sa.n_cells() {
                "cell_count"
            } else if sb.cell_sets() != sa.cell_sets() {
                "cell_set"
            } else {
                "other(neighbours/data/policies)"
            };
            self.rep.violation(Finding {
                signature: sig_base("state_changed", json!(what)),
                description: format!(
                    "{op:?} returned {} but the triangulation changed ({what}: vertices {} -> {}, cells {} -> {}){}",
                    out.class(),
                    sb.n_vertices(),
                    sa.n_vertices(),
                    sb.n_cells(),
                    sa.n_cells(),
                    inj.map(|(s, n, f)| format!(" [injected failure at {s} hit {n} flavor {f}]")).unwrap_or_default()
                ),
                replay: self.replay_json(hist, op, inj, None),
            });
            return false;
        }
        // differential future
        for f in self.follow_ups(before, hist.len() as u32, inj.is_none()) {
            self.cn.futures.fetch_add(1, Ordering::Relaxed);
            let mut a = after.clone();
            let mut b = before.clone();
            let oa = model::apply(&mut a, &f, &self.alphabet);
            let ob = model::apply(&mut b, &f, &self.alphabet);
            let same_out = oa.class() == ob.class();
            if !same_out || fingerprint(&a) != fingerprint(&b) {
                self.rep.violation(Finding {
                    signature: sig_base("future_differs", json!({"follow_up": op_class(&f), "survivor": oa.class(), "pristine": ob.class()})),
                    description: format!(
                        "after {op:?} returned {}, the follow-up {f:?} behaves differently on the survivor ({}) than on a pristine clone ({}){}",
                        out.class(),
                        oa.class(),
                        ob.class(),
                        inj.map(|(s, n, fl)| format!(" [injected failure at {s} hit {n} flavor {fl}]")).unwrap_or_default()
                    ),
                    replay: self.replay_json(hist, op, inj, Some(&f)),
                });
                return false;
            }
        }
        true
    }

    fn inject_all(&self, s: &DtI<K, D>, op: &Op, hist: &[Op]) {
        // record mode
        fp::start_recording();
        let mut probe = s.clone();
        let _ = model::apply(&mut probe, op, &self.alphabet);
        let hits = fp::stop_recording();
        for (site, count) in hits {
            for nth in 1..=count.min(self.max_hits_per_site) {
                for flavor in 0..2u8 {
                    let mut dt = s.clone();
                    fp::arm(site, nth, flavor);
                    let out = model::apply(&mut dt, op, &self.alphabet);
                    let fired = fp::disarm();
                    self.cn.injected_runs.fetch_add(1, Ordering::Relaxed);
                    if !fired {
                        self.cn.injected_not_fired.fetch_add(1, Ordering::Relaxed);
                        continue;
                    }
                    *self.cn.sites.lock().unwrap().entry(format!("{site}/{flavor}")).or_default() += 1;
                    match &out {
                        Outcome::Panic { msg } => {
                            self.rep.outcome("injected:panic");
                            let _ = msg;
                        }
                        o if o.is_failure() => {
                            self.cn.injected_surfaced.fetch_add(1, Ordering::Relaxed);
                            self.rep.outcome(&format!("injected:{}", o.class()));
                            self.check_unchanged(s, &dt, hist, op, o, Some((site, nth, flavor)));
                        }
                        o => {
                            // absorbed by a retry / fallback: the resulting state must still be a valid triangulation
                            self.cn.injected_absorbed.fetch_add(1, Ordering::Relaxed);
                            self.rep.outcome(&format!("injected-absorbed:{}", o.class()));
                            let (snap, verdict) = reference_verdict(&dt, false, false);
                            let bad = if snap.n_cells() == 0 { snap.n_vertices() > D } else { !verdict.ok123() };
                            if bad {
                                self.rep.violation(Finding {
                                    signature: json!({"check": "absorbed_failure_invalid_state", "op": op_class(op), "injected_area": site.split('.').next().unwrap_or(site)}),
                                    description: format!("{op:?} returned {} after an injected failure at {site} hit {nth} flavor {flavor}, but the state fails the reference: {:?}", o.class(), verdict.first()),
                                    replay: self.replay_json(hist, op, Some((site, nth, flavor)), None),
                                });
                            }
                        }
                    }
                }
            }
        }
    }
}

fn op_class(op: &Op) -> String {
    let s = format!("{op:?}");
    s.split(|c: char| c == ' ' || c == '(' || c == '{').next().unwrap_or("?").to_string()
}

impl<'a, K: Kernel<D, Scalar = f64> + Sync + Send, const D: usize> Model for M<'a, K, D>
where
    DtI<K, D>: Send + Sync,
{
    type State = St<K, D>;
    type Op = Op;
    fn key(&self, s: &St<K, D>) -> u128 {
        dump_digest(&s.dt)
    }
    fn ops(&self, s: &St<K, D>, hist: &[Op]) -> Vec<Op> {
        let depth = hist.len() as u32;
        let mut v = Vec::new();
        for p in 0..self.alphabet.len() {
            v.push(Op::Insert { p, uid: depth * 64 + p as u32, stats: false });
            v.push(Op::Insert { p, uid: depth * 64 + p as u32, stats: true });
        }
        let nv = s.dt.number_of_vertices();
        if nv > 0 {
            v.push(Op::InsertDupUuid { p: 0, of: 0 });
            v.push(Op::InsertDupUuid { p: self.alphabet.len() - 1, of: nv - 1 });
        }
        for i in 0..nv {
            v.push(Op::Remove { v: i });
        }
        v.push(Op::RemoveUnknown);
        if self.with_flips && s.dt.number_of_cells() > 0 {
            v.extend(model::flip_ops(&s.dt, &self.k1_points, 3000 + depth * 8));
        }
        if s.dt.number_of_cells() > 0 {
            v.push(Op::Repair);
            v.push(Op::RepairAdvanced);
        }
        v
    }
    fn step(&self, s: &St<K, D>, op: &Op, hist: &[Op]) -> Option<St<K, D>> {
        let mut dt = s.dt.clone();
        let out = model::apply(&mut dt, op, &self.alphabet);
        self.rep.outcome(&format!("{}:{}", op_class(op), out.class()));
        let real_depth = hist.iter().filter(|o| !matches!(o, Op::SetVP(_) | Op::SetTG(_) | Op::SetRP(_) | Op::SetCP(_))).count();
        if self.inject_max_depth.is_some_and(|d| real_depth <= d) {
            self.inject_all(&s.dt, op, hist);
        }
        match &out {
            Outcome::Panic { .. } => None,
            o if o.is_failure() => {
                self.cn.natural_failures.fetch_add(1, Ordering::Relaxed);
                self.check_unchanged(&s.dt, &dt, hist, op, o, None);
                None
            }
            Outcome::Ok { detail, .. } => {
                // "Removing an unknown vertex is a no-op": Ok(0) must not change anything either
                if matches!(op, Op::RemoveUnknown) && detail == "0" && fingerprint(&s.dt) != fingerprint(&dt) {
                    self.rep.violation(Finding { signature: json!({"check": "remove_unknown_changed_state", "D": D, "kernel": self.kname}), description: "remove_vertex(unknown) returned Ok(0) but changed the triangulation".into(), replay: self.replay_json(hist, op, None, None) });
                }
                if hist.len() % 2 == 0 {
                    self.rep.sample(json!({"D": D, "kernel": self.kname, "history": hist.iter().map(|o| format!("{o:?}")).collect::<Vec<_>>(), "op": format!("{op:?}"), "outcome": out.class()}), 8);
                }
                Some(St { dt })
            }
            _ => None,
        }
    }
}

#[allow(clippy::too_many_arguments)]
fn run<K, const D: usize>(rep: &Report, cn: &Counters, kname: &'static str, label: &str, alphabet: Vec<[f64; D]>, seed_pts: &[[f64; D]], policy_seeds: &[Vec<Op>], depth: usize, with_flips: bool, inject_max_depth: Option<usize>, total: &mut Stats, bounds: &mut Vec<Value>)
where
    K: Kernel<D, Scalar = f64> + Sync + Send,
    DtI<K, D>: Send + Sync,
{
    let k1_points: Vec<[f64; D]> = vec![std::array::from_fn(|i| 0.3 + 0.05 * i as f64)];
    let m = M::<K, D> { rep, seed_pts: seed_pts.to_vec(), cn, kname, label: label.to_string(), alphabet, k1_points, with_flips, inject_max_depth, max_hits_per_site: 3, _k: std::marker::PhantomData };
    let base: DtI<K, D> = if seed_pts.is_empty() {
        DelaunayTriangulation::with_empty_kernel(K::default())
    } else {
        let vs: Vec<_> = seed_pts.iter().enumerate().map(|(i, c)| mk_vertex::<i32, D>(*c, 0x9000 + i as u128, Some(1000 + i as i32))).collect();
        match DelaunayTriangulation::with_topology_guarantee_and_options(&K::default(), &vs, TopologyGuarantee::DEFAULT, ConstructionOptions::default()) {
            Ok(d) => d,
            Err(_) => return,
        }
    };
    let mut seeds = Vec::new();
    for ps in policy_seeds {
        let mut dt = base.clone();
        for o in ps {
            model::apply(&mut dt, o, &m.alphabet);
        }
        seeds.push((St { dt }, ps.clone()));
    }
    let nseeds = seeds.len();
    let st = bfs(&m, seeds, depth, &Caps { max_states_per_level: 2_000_000, wall_s: 0.0 });
    bounds.push(json!({"D": D, "kernel": kname, "family": label, "alphabet": m.alphabet.len(), "policy_seeds": nseeds, "depth": st.depth_completed, "states": st.states, "transitions": st.transitions, "levels": st.level_sizes, "flips_in_alphabet": with_flips, "inject_up_to_depth": inject_max_depth, "caps_hit": st.caps_hit}));
    total.states += st.states;
    total.transitions += st.transitions;
    total.caps_hit.extend(st.caps_hit);
}

fn policy_seeds(pairs: bool) -> Vec<Vec<Op>> {
    let mut v: Vec<Vec<Op>> = vec![vec![]];
    for rp in 0..3u8 {
        for cp in 0..3u8 {
            if rp == 0 && cp == 0 {
                continue;
            }
            if !pairs && rp != 0 && cp != 0 {
                continue;
            }
            let mut s = Vec::new();
            if rp != 0 {
                s.push(Op::SetRP(rp));
            }
            if cp != 0 {
                s.push(Op::SetCP(cp));
            }
            v.push(s);
        }
    }
    for i in 1..4 {
        v.push(vec![Op::SetVP(i)]);
    }
    for i in 1..3 {
        v.push(vec![Op::SetTG(i)]);
    }
    v
}

fn both<const D: usize>(rep: &Report, cn: &Counters, label: &str, alphabet: Vec<[f64; D]>, seed_pts: &[[f64; D]], ps: &[Vec<Op>], depth: usize, flips: bool, inj: Option<usize>, total: &mut Stats, bounds: &mut Vec<Value>) {
    run::<FastKernel<f64>, D>(rep, cn, "fast", label, alphabet.clone(), seed_pts, ps, depth, flips, inj, total, bounds);
    run::<RobustKernel<f64>, D>(rep, cn, "robust", label, alphabet, seed_pts, ps, depth, flips, inj, total, bounds);
}

fn main() {
    let args = parse_args();
    if let Some(p) = &args.replay {
        std::process::exit(vcore::replay::generic(p));
    }
    silence_panics();
    let rep = Report::new("C03", &args);
    vcore::exact::self_check();
    let thorough = args.tier == Tier::Thorough;
    let x = usize::from(thorough);
    let cn = Counters { natural_failures: AtomicU64::new(0), injected_runs: AtomicU64::new(0), injected_surfaced: AtomicU64::new(0), injected_absorbed: AtomicU64::new(0), injected_not_fired: AtomicU64::new(0), futures: AtomicU64::new(0), sites: Mutex::new(BTreeMap::new()) };
    let mut total = Stats::default();
    let mut bounds: Vec<Value> = Vec::new();
    let all_ps = policy_seeds(true);
    let dflt_ps: Vec<Vec<Op>> = vec![vec![], vec![Op::SetRP(1)], vec![Op::SetCP(1)]];

    // natural failures: wide exploration, all policy seeds, no injection
    let g3 = alpha::grid::<2>(3);
    both::<2>(&rep, &cn, "G2(3) from empty", g3.clone(), &[], &all_ps, 4 + x, false, None, &mut total, &mut bounds);
    let seed2 = [[0.0, 0.0], [2.0, 0.0], [0.0, 2.0], [2.0, 2.0], [1.0, 1.0]];
    both::<2>(&rep, &cn, "G2(3) from constructed seed with flips", g3.clone(), &seed2, &all_ps, 2 + x, true, None, &mut total, &mut bounds);
    let seed2b = [[0.0, 0.0], [3.0, 0.0], [0.0, 3.0], [3.0, 3.0], [1.0, 2.0], [2.0, 1.0]];
    both::<2>(&rep, &cn, "G2(4) from constructed seed with flips", alpha::grid::<2>(4), &seed2b, &dflt_ps, 2, true, None, &mut total, &mut bounds);
    let mut c3 = alpha::grid::<3>(2);
    c3.push([0.5; 3]);
    both::<3>(&rep, &cn, "cube3+centre from empty", c3.clone(), &[], &dflt_ps, 5 + x, false, None, &mut total, &mut bounds);
    let seed3 = [[0.0, 0.0, 0.0], [1.0, 0.0, 0.0], [0.0, 1.0, 0.0], [0.0, 0.0, 1.0], [1.0, 1.0, 1.0], [0.5, 0.5, 0.5]];
    both::<3>(&rep, &cn, "cube3+centre from constructed seed with flips", c3.clone(), &seed3, &all_ps, 1 + x, true, None, &mut total, &mut bounds);
    let a4 = alpha::cube_alphabet::<4>();
    let seed4: Vec<[f64; 4]> = a4.iter().take(6).copied().collect();
    both::<4>(&rep, &cn, "cube alphabet from constructed seed with flips", a4.clone(), &seed4, &dflt_ps, 1 + x, true, None, &mut total, &mut bounds);
    let a5 = alpha::cube_alphabet::<5>();
    let seed5: Vec<[f64; 5]> = a5.iter().take(7).copied().collect();
    both::<5>(&rep, &cn, "cube alphabet from constructed seed with flips", a5.clone(), &seed5, &dflt_ps, 1, true, None, &mut total, &mut bounds);

    // injected failures: every failpoint site x hit x flavour, one at a time, on smaller state sets
    let inj_ps: Vec<Vec<Op>> = vec![vec![], vec![Op::SetRP(1)], vec![Op::SetCP(1)], vec![Op::SetRP(1), Op::SetCP(2)], vec![Op::SetVP(2)]];
    both::<2>(&rep, &cn, "inject: G2(3) from empty", g3.clone(), &[], &inj_ps, 3 + x, false, Some(2 + x), &mut total, &mut bounds);
    both::<2>(&rep, &cn, "inject: G2(3) from constructed seed with flips", g3.clone(), &seed2, &inj_ps, 2, true, Some(1), &mut total, &mut bounds);
    both::<3>(&rep, &cn, "inject: cube3+centre from empty", c3.clone(), &[], &dflt_ps, 4 + x, false, Some(3 + x), &mut total, &mut bounds);
    both::<3>(&rep, &cn, "inject: cube3+centre from constructed seed with flips", c3.clone(), &seed3, &dflt_ps, 1 + x, true, Some(x), &mut total, &mut bounds);
    both::<4>(&rep, &cn, "inject: cube alphabet from constructed seed with flips", a4.clone(), &seed4, &dflt_ps, 1, true, Some(0), &mut total, &mut bounds);
    if thorough {
        both::<5>(&rep, &cn, "inject: cube alphabet from constructed seed with flips", a5.clone(), &seed5, &dflt_ps, 1, true, Some(0), &mut total, &mut bounds);
    }

    let nat = cn.natural_failures.load(Ordering::Relaxed);
    let inj = cn.injected_runs.load(Ordering::Relaxed);
    let surfaced = cn.injected_surfaced.load(Ordering::Relaxed);
    if nat < 100 || surfaced < 100 {
        machinery_fail(&format!("C03 vacuous: natural failures {nat}, injected failures surfaced {surfaced}"));
    }
    let sites = cn.sites.lock().unwrap().clone();
    let cov = json!({
        "evaluations": total.transitions + inj,
        "distinct_nontrivial": nat + surfaced,
        "rule": "every op of the mutation alphabet (insert both entry points, duplicate UUID, remove every vertex / unknown, every flip handle incl. invalid ones, both repairs) in every state of a BFS from empty / constructed seeds under policy seeds; plus, for states up to the stated depth, every failpoint site x hit index (<=3) x error flavour armed one at a time; non-trivial = the call failed (naturally or by injection) so the unchanged-state and differential-future oracles were evaluated",
        "exhaustive": total.caps_hit.is_empty(),
        "states": total.states,
        "transitions": total.transitions,
        "natural_failures_checked": nat,
        "injected_runs": inj,
        "injected_failures_surfaced": surfaced,
        "injected_failures_absorbed": cn.injected_absorbed.load(Ordering::Relaxed),
        "injected_not_fired": cn.injected_not_fired.load(Ordering::Relaxed),
        "follow_up_comparisons": cn.futures.load(Ordering::Relaxed),
        "failpoint_sites_fired": sites,
        "bounds": bounds,
    });
    let code = rep.finish("fault_enumeration", cov, vec!["failpoints are inert unless armed on the calling thread".into(), "semantic fingerprint = vertices (uuid, coordinate bits, data), cells as vertex-uuid sets, neighbour pairs, counts, policies".into()], args.part.as_deref());
    std::process::exit(code);
}
