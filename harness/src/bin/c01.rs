//! C01 — every successful batch construction returns a certified Delaunay triangulation.
//! Exhaustive over point (multi)sets from small exact grids x construction configurations.

use delaunay::core::delaunay_triangulation::{ConstructionOptions, ConstructionStatistics, DedupPolicy, DelaunayTriangulation, InitialSimplexStrategy, InsertionOrderStrategy, RetryPolicy};
use delaunay::core::triangulation::TopologyGuarantee;
use delaunay::core::vertex::Vertex;
use delaunay::geometry::kernel::{FastKernel, Kernel, RobustKernel};
use rayon::prelude::*;
use serde_json::{Value, json};
use std::collections::{HashMap, HashSet};
use std::num::NonZeroUsize;
use std::sync::atomic::{AtomicU64, Ordering};
use vcore::alpha::{self, mk_vertex, permutations, subsets};
use vcore::dtx::{guarded, reference_verdict, silence_panics, variant_name};
use vcore::refval;
use vcore::report::{Finding, Report, Tier, machinery_fail, parse_args};
use vcore::snap::canon_bits;

#[derive(Clone, Copy, Debug)]
struct Cfg {
    guarantee: TopologyGuarantee,
    order: InsertionOrderStrategy,
    dedup: DedupPolicy,
    simplex: InitialSimplexStrategy,
    retry: RetryPolicy,
    with_stats: bool,
}

impl Cfg {
    fn default_cfg() -> Self {
        let o = ConstructionOptions::default();
        Cfg { guarantee: TopologyGuarantee::DEFAULT, order: o.insertion_order(), dedup: o.dedup_policy(), simplex: o.initial_simplex_strategy(), retry: o.retry_policy(), with_stats: false }
    }
    fn options(&self) -> ConstructionOptions {
        ConstructionOptions::default().with_insertion_order(self.order).with_dedup_policy(self.dedup).with_initial_simplex_strategy(self.simplex).with_retry_policy(self.retry)
    }
    fn label(&self) -> String {
        format!("{:?}/{:?}/{:?}/{:?}/{:?}/stats={}", self.guarantee, self.order, self.dedup, self.simplex, self.retry, self.with_stats)
    }
}

fn guarantees() -> Vec<TopologyGuarantee> {
    vec![TopologyGuarantee::PLManifold, TopologyGuarantee::Pseudomanifold, TopologyGuarantee::PLManifoldStrict]
}
fn orders() -> Vec<InsertionOrderStrategy> {
    vec![InsertionOrderStrategy::Hilbert, InsertionOrderStrategy::Input, InsertionOrderStrategy::Lexicographic, InsertionOrderStrategy::Morton]
}
fn dedups() -> Vec<DedupPolicy> {
    vec![DedupPolicy::Off, DedupPolicy::Exact, DedupPolicy::Epsilon { tolerance: 0.5 }]
}
fn simplexes() -> Vec<InitialSimplexStrategy> {
    vec![InitialSimplexStrategy::First, InitialSimplexStrategy::Balanced]
}
fn retries() -> Vec<RetryPolicy> {
    vec![RetryPolicy::default(), RetryPolicy::Disabled, RetryPolicy::Shuffled { attempts: NonZeroUsize::new(2).unwrap(), base_seed: Some(7) }]
}

fn full_product() -> Vec<Cfg> {
    let mut v = Vec::new();
    for g in guarantees() {
        for o in orders() {
            for d in dedups() {
                for s in simplexes() {
                    for r in retries() {
                        for st in [false, true] {
                            v.push(Cfg { guarantee: g, order: o, dedup: d, simplex: s, retry: r, with_stats: st });
                        }
                    }
                }
            }
        }
    }
    v
}

/// default + every single-axis deviation (deviation bound 1); `pairs` adds every two-axis deviation
fn deviations(pairs: bool) -> Vec<Cfg> {
    let d = Cfg::default_cfg();
    let mut singles: Vec<(usize, Cfg)> = Vec::new();
    for g in guarantees().into_iter().skip(1) {
        singles.push((0, Cfg { guarantee: g, ..d }));
    }
    for o in orders().into_iter().skip(1) {
        singles.push((1, Cfg { order: o, ..d }));
    }
    for x in dedups().into_iter().skip(1) {
        singles.push((2, Cfg { dedup: x, ..d }));
    }
    for s in simplexes().into_iter().skip(1) {
        singles.push((3, Cfg { simplex: s, ..d }));
    }
    for r in retries().into_iter().skip(1) {
        singles.push((4, Cfg { retry: r, ..d }));
    }
    singles.push((5, Cfg { with_stats: true, ..d }));
    let mut out = vec![d];
    out.extend(singles.iter().map(|(_, c)| *c));
    if pairs {
        for (i, (ax, a)) in singles.iter().enumerate() {
            for (bx, b) in singles.iter().skip(i + 1) {
                if ax == bx {
                    continue;
                }
                let mut c = *a;
                match bx {
                    0 => c.guarantee = b.guarantee,
                    1 => c.order = b.order,
                    2 => c.dedup = b.dedup,
                    3 => c.simplex = b.simplex,
                    4 => c.retry = b.retry,
                    _ => c.with_stats = b.with_stats,
                }
                out.push(c);
            }
        }
    }
    out
}

struct Counters {
    builds: AtomicU64,
    ok: AtomicU64,
    ok_nontrivial: AtomicU64,
    err: AtomicU64,
    gp_ok: AtomicU64,
    gp_total: AtomicU64,
}

fn diam<const D: usize>(pts: &[[f64; D]]) -> f64 {
    let mut m: f64 = 0.0;
    for a in pts {
        for b in pts {
            let d: f64 = (0..D).map(|i| (a[i] - b[i]) * (a[i] - b[i])).sum::<f64>().sqrt();
            m = m.max(d);
        }
    }
    m
}

#[allow(clippy::too_many_arguments)]
fn build_and_check<K: Kernel<D, Scalar = f64>, const D: usize>(rep: &Report, cn: &Counters, kname: &str, family: &str, pts: &[[f64; D]], cfg: &Cfg, general_position: bool) {
    let verts: Vec<Vertex<f64, i32, D>> = pts.iter().enumerate().map(|(i, c)| mk_vertex(*c, i as u128 + 1, Some(i as i32))).collect();
    let kernel = K::default();
    cn.builds.fetch_add(1, Ordering::Relaxed);
    let replay = || json!({"D": D, "kernel": kname, "family": family, "points": pts.iter().map(|p| p.to_vec()).collect::<Vec<_>>(), "cfg": cfg.label()});
    let sig = |check: &str, detail: Value| json!({"check": check, "D": D, "kernel": kname, "family": family, "detail": detail});
    type R<K, const D: usize> = Result<(DelaunayTriangulation<K, i32, (), D>, Option<ConstructionStatistics>), String>;
    let res: Result<R<K, D>, String> = guarded(|| {
        if cfg.with_stats {
            DelaunayTriangulation::<K, i32, (), D>::with_topology_guarantee_and_options_with_construction_statistics(&kernel, &verts, cfg.guarantee, cfg.options()).map(|(d, s)| (d, Some(s))).map_err(|e| variant_name(&e.error))
        } else {
            DelaunayTriangulation::<K, i32, (), D>::with_topology_guarantee_and_options(&kernel, &verts, cfg.guarantee, cfg.options()).map(|d| (d, None)).map_err(|e| variant_name(&e))
        }
    });
    if general_position {
        cn.gp_total.fetch_add(1, Ordering::Relaxed);
    }
    let (dt, stats) = match res {
        Err(panic_msg) => {
            rep.outcome("panic");
            rep.violation(Finding { signature: sig("panic", json!(panic_msg.chars().take(60).collect::<String>())), description: format!("construction panicked: {panic_msg}"), replay: replay() });
            return;
        }
        Ok(Err(e)) => {
            cn.err.fetch_add(1, Ordering::Relaxed);
            rep.outcome(&format!("Err({e})"));
            return;
        }
        Ok(Ok(x)) => x,
    };
    cn.ok.fetch_add(1, Ordering::Relaxed);
    if general_position {
        cn.gp_ok.fetch_add(1, Ordering::Relaxed);
    }
    rep.outcome("Ok");
    // ---- oracle ----
    let (snap, verdict) = reference_verdict(&dt, true, true);
    if snap.n_cells() > 1 {
        cn.ok_nontrivial.fetch_add(1, Ordering::Relaxed);
    }
    if let Some(first) = verdict.first() {
        let level = first.split(':').next().unwrap_or("?").to_string();
        let class: String = vcore::report::msg_class(first.splitn(2, ':').nth(1).unwrap_or(""));
        rep.violation(Finding { signature: sig("reference_validity", json!({"level": level, "class": class})), description: format!("Ok result fails the independent reference: {first}"), replay: replay() });
        return;
    }
    if snap.n_cells() == 0 {
        rep.violation(Finding { signature: sig("no_cells", json!(null)), description: "construction returned Ok with no cells".into(), replay: replay() });
        return;
    }
    let viol = refval::delaunay_violations(&snap, true);
    if let Some(&(ci, vi)) = viol.first() {
        rep.violation(Finding {
            signature: sig("empty_circumsphere", json!({"mechanism": refval::violation_mechanism(&snap)})),
            description: format!("vertex {:?} lies strictly inside the circumsphere of cell {:?} (exact, outside the tolerance band)", snap.verts[vi].c, snap.cell_points(ci)),
            replay: replay(),
        });
        return;
    }
    // vertex accounting
    let by_uuid: HashMap<uuid::Uuid, usize> = verts.iter().enumerate().map(|(i, v)| (v.uuid(), i)).collect();
    let dm = diam(pts).max(1.0);
    let mut seen = HashSet::new();
    for v in &snap.verts {
        let Some(&i) = by_uuid.get(&v.uuid) else {
            rep.violation(Finding { signature: sig("accounting", json!("unknown_uuid")), description: format!("result vertex {} is not an input vertex", v.uuid), replay: replay() });
            return;
        };
        if !seen.insert(v.uuid) {
            rep.violation(Finding { signature: sig("accounting", json!("uuid_twice")), description: format!("uuid {} twice in result", v.uuid), replay: replay() });
            return;
        }
        if v.data != format!("{:?}", Some(i as i32)) {
            rep.violation(Finding { signature: sig("accounting", json!("data")), description: format!("vertex data {} != input data {}", v.data, i), replay: replay() });
            return;
        }
        for j in 0..D {
            let (a, b) = (v.c[j], pts[i][j]);
            if canon_bits(a) != canon_bits(b) {
                let bound = (j as f64 + 1.0) * 1e-8 * dm * 1.000001;
                if (a - b).abs() > bound {
                    rep.violation(Finding { signature: sig("accounting", json!("displaced")), description: format!("vertex {i} coordinate {j} moved from {b:e} to {a:e} (> documented perturbation {bound:e})"), replay: replay() });
                    return;
                }
            }
        }
    }
    if let Some(st) = stats {
        if st.inserted != snap.n_vertices() {
            rep.violation(Finding { signature: sig("statistics", json!("inserted_ne_vertices")), description: format!("statistics.inserted={} but {} vertices present", st.inserted, snap.n_vertices()), replay: replay() });
            return;
        }
        let skipped = st.skipped_duplicate + st.skipped_degeneracy;
        let missing = verts.len() - snap.n_vertices();
        // inputs that are absent and cannot have been removed by the configured dedup policy must be accounted as skipped
        let unexplained = {
            let present: HashSet<uuid::Uuid> = snap.verts.iter().map(|v| v.uuid).collect();
            verts
                .iter()
                .enumerate()
                .filter(|(_, v)| !present.contains(&v.uuid()))
                .filter(|(i, _)| match cfg.dedup {
                    DedupPolicy::Off => true,
                    DedupPolicy::Exact => !pts.iter().enumerate().any(|(j, q)| j != *i && q.iter().zip(pts[*i].iter()).all(|(a, b)| a == b)),
                    DedupPolicy::Epsilon { tolerance } => !pts.iter().enumerate().any(|(j, q)| j != *i && vcore::exact::dist_cmp(q, &pts[*i], tolerance * 1.01) < 0),
                    _ => false,
                })
                .count()
        };
        let bad = match cfg.dedup {
            DedupPolicy::Off => skipped != missing,
            _ => skipped > missing || unexplained > skipped,
        };
        if bad {
            rep.violation(Finding {
                signature: sig("statistics", json!({"skipped_mismatch": format!("{:?}", cfg.dedup)})),
                description: format!("{} inputs, {} present, but skipped_duplicate={} skipped_degeneracy={}", verts.len(), snap.n_vertices(), st.skipped_duplicate, st.skipped_degeneracy),
                replay: replay(),
            });
            return;
        }
    }
    // exact dedup keeps one representative per distinct coordinate tuple => no two result vertices share coordinates
    let mut cs = HashSet::new();
    for v in &snap.verts {
        if !cs.insert(v.c.iter().map(|x| canon_bits(*x)).collect::<Vec<_>>()) {
            rep.violation(Finding { signature: sig("accounting", json!("duplicate_coordinates")), description: format!("two result vertices share coordinates {:?}", v.c), replay: replay() });
            return;
        }
    }
    rep.sample(json!({"D": D, "kernel": kname, "family": family, "points": pts.iter().map(|p| p.to_vec()).collect::<Vec<_>>(), "cfg": cfg.label(), "cells": snap.n_cells(), "vertices": snap.n_vertices()}), 10);
}

fn both_kernels<const D: usize>(rep: &Report, cn: &Counters, family: &str, pts: &[[f64; D]], cfg: &Cfg, gp: bool, robust_too: bool) {
    build_and_check::<FastKernel<f64>, D>(rep, cn, "fast", family, pts, cfg, gp);
    if robust_too {
        build_and_check::<RobustKernel<f64>, D>(rep, cn, "robust", family, pts, cfg, gp);
    }
}

fn sets_of<const D: usize>(alphabet: &[[f64; D]], sizes: std::ops::RangeInclusive<usize>) -> Vec<Vec<[f64; D]>> {
    let mut out = Vec::new();
    for k in sizes {
        for s in subsets(alphabet.len(), k) {
            out.push(s.iter().map(|&i| alphabet[i]).collect());
        }
    }
    out
}

fn scaled<const D: usize>(p: &[[f64; D]], scale: f64, shift: f64) -> Vec<[f64; D]> {
    p.iter().map(|q| std::array::from_fn(|i| (q[i] + shift) * scale)).collect()
}

fn run_dim<const D: usize>(rep: &Report, cn: &Counters, thorough: bool, bounds: &mut serde_json::Map<String, Value>) {
    let devs = deviations(thorough);
    let dflt = vec![Cfg::default_cfg(), Cfg { with_stats: true, ..Cfg::default_cfg() }];
    let mut fam: Vec<(String, Vec<Vec<[f64; D]>>, Vec<Cfg>, bool)> = Vec::new();
    if D == 2 {
        let g3 = alpha::grid::<D>(3);
        fam.push(("G2(3) subsets".into(), sets_of(&g3, 3..=9), full_product(), false));
        let g4 = alpha::grid::<D>(4);
        fam.push(("G2(4) subsets".to_string(), sets_of(&g4, 3..=if thorough { 7 } else { 5 }), devs.clone(), false));
    } else if D == 3 {
        let g2 = alpha::grid::<D>(2);
        fam.push(("cube3 subsets".into(), sets_of(&g2, 4..=8), if thorough { full_product() } else { devs.clone() }, false));
        let mut g2c = g2.clone();
        g2c.push([0.5; D]);
        fam.push(("cube3+centre subsets".into(), sets_of(&g2c, 5..=if thorough { 9 } else { 7 }).into_iter().filter(|s| s.contains(&[0.5; D])).collect(), dflt.clone(), false));
        if thorough {
            let g3 = alpha::grid::<D>(3);
            fam.push(("G3(3) subsets".into(), sets_of(&g3, 4..=6), vec![Cfg::default_cfg()], false));
        }
    } else {
        let a = alpha::cube_alphabet::<D>();
        fam.push(("cube alphabet subsets".to_string(), sets_of(&a, D + 1..=D + if thorough { 4 } else { 3 }), if thorough { devs.clone() } else { dflt.clone() }, false));
    }
    if D >= 3 && !thorough {
        // guarantee x ordering product (retry / dedup / simplex at their defaults) on every 5th set of the degenerate
        // alphabet: the finalisation steps of batch construction differ per guarantee and the cells they see differ per
        // insertion order (the thorough tier covers every pair of deviations on every set)
        let a: Vec<[f64; D]> = if D == 3 { let mut g = alpha::grid::<D>(2); g.push([0.5; D]); g } else { alpha::cube_alphabet::<D>() };
        let mut cfgs = Vec::new();
        for g in guarantees() {
            for o in orders() {
                cfgs.push(Cfg { guarantee: g, order: o, ..Cfg::default_cfg() });
            }
        }
        fam.push((if D == 3 { "cube3+centre subsets".to_string() } else { "cube alphabet subsets".to_string() }, sets_of(&a, D + 2..=D + 3).into_iter().step_by(5).collect(), cfgs, false));
    }
    // general-position family (moment curve): all subsets of D+1..D+3 of 2D+4 points
    let mp = alpha::moment_points::<D>(if D <= 3 { 8 } else { D + 4 });
    fam.push(("moment curve".into(), sets_of(&mp, D + 1..=(D + 3).min(mp.len())), devs.clone(), true));

    for (name, sets, cfgs, gp) in &fam {
        bounds.insert(format!("D{D} {name} ({} configs)", cfgs.len()), json!({"point_sets": sets.len(), "configs": cfgs.len(), "kernels": 2}));
        sets.par_iter().for_each(|pts| {
            for cfg in cfgs {
                both_kernels::<D>(rep, cn, name, pts, cfg, *gp, true);
            }
        });
    }
    // ordered arrangements (Input order makes the caller's order an input) on the smallest alphabet
    let base: Vec<[f64; D]> = if D == 2 { alpha::grid::<D>(3) } else if D == 3 { alpha::grid::<D>(2) } else { alpha::cube_alphabet::<D>() };
    let kmax = if D == 2 { if thorough { 5 } else { 4 } } else { D + 1 + usize::from(thorough && D == 3) };
    let ordered_sets = sets_of(&base, D + 1..=kmax);
    let input_cfgs: Vec<Cfg> = simplexes().into_iter().map(|s| Cfg { order: InsertionOrderStrategy::Input, simplex: s, ..Cfg::default_cfg() }).collect();
    let n_arr = AtomicU64::new(0);
    ordered_sets.par_iter().for_each(|set| {
        let perms = permutations(set.len());
        // D >= 4: permutations that change the first D+1 positions only matter through the initial simplex; use all for D<=3
        let step = if D <= 3 { 1 } else { 7 };
        for (pi, (perm, _)) in perms.iter().enumerate() {
            if pi % step != 0 {
                continue;
            }
            let pts: Vec<[f64; D]> = perm.iter().map(|&i| set[i]).collect();
            n_arr.fetch_add(1, Ordering::Relaxed);
            for cfg in &input_cfgs {
                both_kernels::<D>(rep, cn, "ordered arrangements (Input order)", &pts, cfg, false, D <= 3);
            }
        }
    });
    bounds.insert(format!("D{D} ordered arrangements"), json!({"arrangements": n_arr.load(Ordering::Relaxed), "max_size": kmax, "stride": if D <= 3 { 1 } else { 7 }}));
    // variants: multisets (one repeated point), scales, translation, near-duplicates, clusters
    let var_sets: Vec<Vec<[f64; D]>> = sets_of(&base, D + 1..=(D + 3).min(base.len())).into_iter().step_by(if thorough { 1 } else { 3 }).collect();
    let mut var_cfgs = if thorough { devs.clone() } else { dflt.clone() };
    // the epsilon-dedup implementations switch code paths with the coordinate / tolerance ratio
    for tol in [1e-10, 0.5] {
        var_cfgs.push(Cfg { dedup: DedupPolicy::Epsilon { tolerance: tol }, with_stats: true, ..Cfg::default_cfg() });
    }
    var_cfgs.push(Cfg { dedup: DedupPolicy::Exact, with_stats: true, ..Cfg::default_cfg() });
    if !thorough {
        // Pseudomanifold skips the completion-time re-validation, so whatever the last insertion / flip left behind is
        // what the caller gets (negatively oriented cells were found this way in the thorough tier: fix 4e756eb)
        for s in simplexes() {
            var_cfgs.push(Cfg { guarantee: TopologyGuarantee::Pseudomanifold, simplex: s, ..Cfg::default_cfg() });
            var_cfgs.push(Cfg { guarantee: TopologyGuarantee::Pseudomanifold, simplex: s, retry: RetryPolicy::Disabled, ..Cfg::default_cfg() });
        }
    }
    let nvar = AtomicU64::new(0);
    var_sets.par_iter().for_each(|set| {
        let mut variants: Vec<(String, Vec<[f64; D]>)> = Vec::new();
        for r in 0..set.len().min(3) {
            let mut m = set.clone();
            m.push(set[r]);
            variants.push(("multiset".into(), m));
        }
        variants.push(("scale2^-40".into(), scaled(set, 2f64.powi(-40), 0.0)));
        variants.push(("scale2^40".into(), scaled(set, 2f64.powi(40), 0.0)));
        variants.push(("shift2^30".into(), scaled(set, 1.0, 2f64.powi(30))));
        variants.push(("scale2^32".into(), scaled(set, 2f64.powi(32), 0.0)));
        for delta in [1e-11, 0.99e-10, 1.01e-10, 1e-9] {
            let mut m = set.clone();
            let mut q = set[0];
            q[0] += delta;
            m.push(q);
            variants.push((format!("near-duplicate {delta:e}"), m));
        }
        let mut cl = set.clone();
        cl.extend(scaled(set, 1.0, 2f64.powi(-20)));
        variants.push(("cluster 2^-20".into(), cl));
        for (vn, pts) in &variants {
            for cfg in &var_cfgs {
                nvar.fetch_add(1, Ordering::Relaxed);
                both_kernels::<D>(rep, cn, vn, pts, cfg, false, true);
            }
        }
    });
    bounds.insert(format!("D{D} variants"), json!({"base_sets": var_sets.len(), "builds_per_kernel": nvar.load(Ordering::Relaxed)}));
}

fn replay_one<K: Kernel<D, Scalar = f64>, const D: usize>(pts: &[[f64; D]], cfg: &Cfg) {
    use delaunay::core::util::delaunay_validation::find_delaunay_violations;
    let verts: Vec<Vertex<f64, i32, D>> = pts.iter().enumerate().map(|(i, c)| mk_vertex(*c, i as u128 + 1, Some(i as i32))).collect();
    let r = DelaunayTriangulation::<K, i32, (), D>::with_topology_guarantee_and_options(&K::default(), &verts, cfg.guarantee, cfg.options());
    match r {
        Err(e) => println!("construction: Err({e})"),
        Ok(dt) => {
            let (snap, verdict) = reference_verdict(&dt, true, true);
            println!("construction: Ok, {} vertices, {} cells", snap.n_vertices(), snap.n_cells());
            for v in &snap.verts {
                println!("  v {} {:?} data={}", v.uuid, v.c, v.data);
            }
            for ci in 0..snap.n_cells() {
                println!("  cell {ci}: {:?}", snap.cell_points(ci).unwrap());
            }
            println!("reference verdict: {:?}", verdict.first());
            for (ci, vi) in refval::delaunay_violations(&snap, false) {
                let pts = snap.cell_points(ci).unwrap();
                let e = vcore::exact::insphere(&pts, &snap.verts[vi].c).unwrap();
                let (tol, err) = vcore::exact::insphere_band(&pts, &snap.verts[vi].c);
                println!("  certain violation: cell {ci} vertex {:?}  |det|={:e} tol={:e} err={:e}", snap.verts[vi].c, e.mag, tol, err);
                {
                    use delaunay::geometry::point::Point;
                    use delaunay::geometry::traits::coordinate::Coordinate;
                    let lp: Vec<Point<f64, D>> = pts.iter().map(|p| Point::new(std::array::from_fn(|i| p[i]))).collect();
                    let q = Point::new(snap.verts[vi].c);
                    let cfgr = delaunay::geometry::robust_predicates::config_presets::general_triangulation::<f64>();
                    println!(
                        "     lib: kernel.in_sphere={:?} robust_insphere(general)={:?} insphere={:?} lifted={:?} distance={:?} orient={:?}",
                        K::default().in_sphere(&lp, &q),
                        delaunay::geometry::robust_predicates::robust_insphere(&lp, &q, &cfgr),
                        delaunay::geometry::predicates::insphere(&lp, q),
                        delaunay::geometry::predicates::insphere_lifted(&lp, q),
                        delaunay::geometry::predicates::insphere_distance(&lp, q),
                        K::default().orientation(&lp)
                    );
                }
            }
            println!("library: is_valid={:?}", dt.is_valid().map_err(|e| e.to_string()));
            println!("library: validate={:?}", dt.validate().map_err(|e| e.to_string()));
            println!("library: is_delaunay_via_flips={:?}", dt.is_delaunay_via_flips().map_err(|e| e.to_string()));
            println!("library: find_delaunay_violations={:?}", find_delaunay_violations(dt.tds(), None).map(|v| v.len()).map_err(|e| e.to_string()));
        }
    }
}

fn replay(path: &str) -> ! {
    let doc: Value = serde_json::from_str(&std::fs::read_to_string(path).expect("read replay")).expect("parse replay");
    let r = &doc["replay"];
    let d = r["D"].as_u64().unwrap() as usize;
    let label = r["cfg"].as_str().unwrap();
    let mut all = full_product();
    all.extend(deviations(true));
    for tol in [1e-10, 0.5] {
        all.push(Cfg { dedup: DedupPolicy::Epsilon { tolerance: tol }, with_stats: true, ..Cfg::default_cfg() });
    }
    let cfg = all.into_iter().find(|c| c.label() == label).expect("cfg label");
    let kernel = r["kernel"].as_str().unwrap().to_string();
    let raw: Vec<Vec<f64>> = r["points"].as_array().unwrap().iter().map(|p| p.as_array().unwrap().iter().map(|x| x.as_f64().unwrap()).collect()).collect();
    println!("replay {path}: D={d} kernel={kernel} cfg={label}\n  signature: {}\n  recorded: {}", doc["signature"], doc["description"]);
    fn go<const D: usize>(raw: &[Vec<f64>], kernel: &str, cfg: &Cfg) {
        let pts: Vec<[f64; D]> = raw.iter().map(|p| std::array::from_fn(|i| p[i])).collect();
        if kernel == "fast" { replay_one::<FastKernel<f64>, D>(&pts, cfg) } else { replay_one::<RobustKernel<f64>, D>(&pts, cfg) }
    }
    match d {
        2 => go::<2>(&raw, &kernel, &cfg),
        3 => go::<3>(&raw, &kernel, &cfg),
        4 => go::<4>(&raw, &kernel, &cfg),
        _ => go::<5>(&raw, &kernel, &cfg),
    }
    std::process::exit(0)
}

fn main() {
    let args = parse_args();
    if let Some(p) = &args.replay {
        replay(p);
    }
    silence_panics();
    let rep = Report::new("C01", &args);
    vcore::exact::self_check();
    let cn = Counters { builds: AtomicU64::new(0), ok: AtomicU64::new(0), ok_nontrivial: AtomicU64::new(0), err: AtomicU64::new(0), gp_ok: AtomicU64::new(0), gp_total: AtomicU64::new(0) };
    let thorough = args.tier == Tier::Thorough;
    let mut bounds = serde_json::Map::new();
    run_dim::<2>(&rep, &cn, thorough, &mut bounds);
    run_dim::<3>(&rep, &cn, thorough, &mut bounds);
    run_dim::<4>(&rep, &cn, thorough, &mut bounds);
    run_dim::<5>(&rep, &cn, thorough, &mut bounds);
    let (gp_ok, gp_total) = (cn.gp_ok.load(Ordering::Relaxed), cn.gp_total.load(Ordering::Relaxed));
    if gp_total == 0 || (gp_ok as f64) < 0.9 * gp_total as f64 {
        machinery_fail(&format!("C01 vacuous: only {gp_ok}/{gp_total} general-position constructions returned Ok"));
    }
    let cov = json!({
        "evaluations": cn.builds.load(Ordering::Relaxed),
        "distinct_nontrivial": cn.ok_nontrivial.load(Ordering::Relaxed),
        "rule": "every subset (and listed multiset / ordered arrangement / scale / near-duplicate / cluster variant) of the per-dimension grid alphabets x configuration product (full product on the smallest family, every single-axis deviation elsewhere; pairs in thorough) x 2 kernels; each (input, configuration, kernel) triple is distinct by construction; non-trivial = Ok result with more than one cell",
        "exhaustive": true,
        "ok": cn.ok.load(Ordering::Relaxed),
        "err": cn.err.load(Ordering::Relaxed),
        "general_position_ok": gp_ok,
        "general_position_total": gp_total,
        "bounds": bounds,
    });
    let code = rep.finish("exploration", cov, vec!["exact oracle self-check passed".into(), "perturbation bound: |delta_i| <= (i+1) * 1e-8 * max(diameter, 1)".into()], args.part.as_deref());
    std::process::exit(code);
}
