//! C05 — structural and topological validators accept exactly the valid complexes.
//! Every single fault of a catalogue at every location of every valid seed complex (pairs on tiny ones),
//! library verdict per level vs an independent reference verdict.

use delaunay::core::triangulation::TopologyGuarantee;
use delaunay::core::triangulation_data_structure::{CellKey, VertexKey};
use delaunay::geometry::kernel::{FastKernel, Kernel, RobustKernel};
use delaunay::geometry::point::Point;
use delaunay::geometry::traits::coordinate::Coordinate;
use rayon::prelude::*;
use serde_json::{Value, json};
use std::sync::atomic::{AtomicU64, Ordering};
use vcore::alpha::{self, subsets};
use vcore::corpus;
use vcore::dtx::{guarantee_of, guarded, lookups_of, silence_panics, snap_of};
use vcore::model::{self, DtI};
use vcore::refval::{self, Verdict};
use vcore::report::{Finding, Report, Tier, machinery_fail, parse_args};
use vcore::snap::uuid_v4_from;

#[derive(Clone, Debug)]
enum Fault {
    CoordNan(usize),
    CoordInf(usize),
    VertexUuidNil(usize),
    /// vertex a gets the UUID of vertex b (raw: the UUID table keeps a's stale entry)
    VertexUuidDuplicate(usize, usize),
    /// cell a gets the UUID of cell b
    CellUuidDuplicate(usize, usize),
    CellDropVertex(usize),
    CellExtraVertex(usize),
    CellRepeatVertex(usize, usize),
    NeighborBufferShort(usize),
    UuidMapRemoveVertex(usize),
    UuidMapRedirectVertex(usize),
    CellRefRemovedVertex(usize, usize),
    IncidentDangling(usize),
    IncidentWrongCell(usize),
    DuplicateCell(usize),
    NeighborNoneOnInterior(usize, usize),
    NeighborSomeOnBoundary(usize, usize),
    NeighborWrongCell(usize, usize),
    NeighborDangling(usize, usize),
    NeighborSlotsRotated(usize),
    SwapVerticesOnly(usize),
    SwapVerticesAndNeighbors(usize),
    RemoveCellRaw(usize),
    IsolatedVertex,
    MergeVertices(usize, usize),
    ReplaceCellVertex(usize, usize, usize),
    MoveVertexOntoFacet(usize, usize),
    MoveVertexAcrossFacet(usize, usize),
    MoveVertexFar(usize),
}

fn class(f: &Fault) -> String {
    let s = format!("{f:?}");
    s.split('(').next().unwrap_or("?").to_string()
}

/// Apply one fault through the raw hooks. Returns false if the location does not apply.
fn inject<K: Kernel<D, Scalar = f64>, const D: usize>(dt: &mut DtI<K, D>, f: &Fault) -> bool {
    let vkeys: Vec<VertexKey> = dt.vertices().map(|(k, _)| k).collect();
    let ckeys: Vec<CellKey> = dt.cells().map(|(k, _)| k).collect();
    let snap = snap_of(dt);
    let tds = dt.verif_tds_raw_mut();
    let vk = |i: usize| vkeys.get(i).copied();
    let ck = |i: usize| ckeys.get(i).copied();
    match f {
        Fault::CoordNan(v) | Fault::CoordInf(v) => {
            let Some(k) = vk(*v) else { return false };
            let vx = tds.get_vertex_by_key_mut(k).unwrap();
            let mut c = *vx.point().coords();
            c[0] = if matches!(f, Fault::CoordNan(_)) { f64::NAN } else { f64::INFINITY };
            vx.verif_set_point_raw(Point::new(c));
            true
        }
        Fault::VertexUuidNil(v) => {
            let Some(k) = vk(*v) else { return false };
            tds.get_vertex_by_key_mut(k).unwrap().verif_set_uuid_raw(uuid::Uuid::nil());
            true
        }
        Fault::VertexUuidDuplicate(a, b) => {
            let (Some(ka), Some(kb)) = (vk(*a), vk(*b)) else { return false };
            if ka == kb {
                return false;
            }
            let u = tds.get_vertex_by_key(kb).unwrap().uuid();
            tds.get_vertex_by_key_mut(ka).unwrap().verif_set_uuid_raw(u);
            true
        }
        Fault::CellUuidDuplicate(a, b) => {
            let (Some(ka), Some(kb)) = (ck(*a), ck(*b)) else { return false };
            if ka == kb {
                return false;
            }
            let u = tds.get_cell(kb).unwrap().uuid();
            tds.get_cell_by_key_mut(ka).unwrap().verif_set_uuid_raw(u);
            true
        }
        Fault::CellDropVertex(c) => {
            let Some(k) = ck(*c) else { return false };
            tds.get_cell_by_key_mut(k).unwrap().verif_vertices_mut().pop();
            true
        }
        Fault::CellExtraVertex(c) => {
            let Some(k) = ck(*c) else { return false };
            let cell = tds.get_cell_by_key_mut(k).unwrap();
            let Some(extra) = vkeys.iter().copied().find(|x| !cell.vertices().contains(x)) else { return false };
            cell.verif_vertices_mut().push(extra);
            true
        }
        Fault::CellRepeatVertex(c, slot) => {
            let Some(k) = ck(*c) else { return false };
            let cell = tds.get_cell_by_key_mut(k).unwrap();
            if *slot > D {
                return false;
            }
            let other = cell.vertices()[(*slot + 1) % (D + 1)];
            cell.verif_vertices_mut()[*slot] = other;
            true
        }
        Fault::NeighborBufferShort(c) => {
            let Some(k) = ck(*c) else { return false };
            match tds.get_cell_by_key_mut(k).unwrap().verif_neighbors_mut() {
                Some(nb) => {
                    nb.pop();
                    true
                }
                None => false,
            }
        }
        Fault::UuidMapRemoveVertex(v) => {
            let Some(k) = vk(*v) else { return false };
            let u = tds.get_vertex_by_key(k).unwrap().uuid();
            tds.verif_uuid_to_vertex_key_mut().remove(&u);
            true
        }
        Fault::UuidMapRedirectVertex(v) => {
            let (Some(k), Some(other)) = (vk(*v), vk((*v + 1) % vkeys.len())) else { return false };
            if k == other {
                return false;
            }
            let u = tds.get_vertex_by_key(k).unwrap().uuid();
            tds.verif_uuid_to_vertex_key_mut().insert(u, other);
            true
        }
        Fault::CellRefRemovedVertex(c, slot) => {
            let Some(k) = ck(*c) else { return false };
            if *slot > D {
                return false;
            }
            tds.get_cell_by_key_mut(k).unwrap().verif_vertices_mut()[*slot] = model::foreign_vertex_key();
            true
        }
        Fault::IncidentDangling(v) => {
            let Some(k) = vk(*v) else { return false };
            tds.get_vertex_by_key_mut(k).unwrap().incident_cell = Some(model::foreign_cell_key());
            true
        }
        Fault::IncidentWrongCell(v) => {
            let Some(k) = vk(*v) else { return false };
            let Some(wrong) = snap.cells.iter().find(|c| !c.v.contains(&k)).map(|c| c.key) else { return false };
            tds.get_vertex_by_key_mut(k).unwrap().incident_cell = Some(wrong);
            true
        }
        Fault::DuplicateCell(c) => {
            let Some(k) = ck(*c) else { return false };
            let mut dup = tds.get_cell(k).unwrap().clone();
            let u = uuid_v4_from(0xd00d + *c as u128);
            dup.verif_set_uuid_raw(u);
            let nk = tds.verif_cells_raw_mut().insert(dup);
            tds.verif_uuid_to_cell_key_mut().insert(u, nk);
            true
        }
        Fault::NeighborNoneOnInterior(c, slot) | Fault::NeighborSomeOnBoundary(c, slot) | Fault::NeighborWrongCell(c, slot) | Fault::NeighborDangling(c, slot) => {
            let Some(k) = ck(*c) else { return false };
            if *slot > D {
                return false;
            }
            let cur = snap.cells[*c].nb.as_ref().and_then(|n| n.get(*slot).copied().flatten());
            let new = match f {
                Fault::NeighborNoneOnInterior(..) => {
                    if cur.is_none() {
                        return false;
                    }
                    None
                }
                Fault::NeighborSomeOnBoundary(..) => {
                    if cur.is_some() {
                        return false;
                    }
                    match ckeys.iter().copied().find(|x| *x != k) {
                        Some(x) => Some(x),
                        None => return false,
                    }
                }
                Fault::NeighborWrongCell(..) => match ckeys.iter().copied().find(|x| *x != k && Some(*x) != cur) {
                    Some(x) if cur.is_some() => Some(x),
                    _ => return false,
                },
                _ => Some(model::foreign_cell_key()),
            };
            let cell = tds.get_cell_by_key_mut(k).unwrap();
            let nb = cell.verif_neighbors_mut();
            if nb.is_none() {
                *nb = Some((0..=D).map(|_| None).collect());
            }
            nb.as_mut().unwrap()[*slot] = new;
            true
        }
        Fault::NeighborSlotsRotated(c) => {
            let Some(k) = ck(*c) else { return false };
            match tds.get_cell_by_key_mut(k).unwrap().verif_neighbors_mut() {
                Some(nb) => {
                    let first = nb[0];
                    for i in 0..D {
                        nb[i] = nb[i + 1];
                    }
                    nb[D] = first;
                    // a rotation of identical entries changes nothing
                    true
                }
                None => false,
            }
        }
        Fault::SwapVerticesOnly(c) | Fault::SwapVerticesAndNeighbors(c) => {
            let Some(k) = ck(*c) else { return false };
            let cell = tds.get_cell_by_key_mut(k).unwrap();
            cell.verif_vertices_mut().swap(0, 1);
            if matches!(f, Fault::SwapVerticesAndNeighbors(_)) {
                if let Some(nb) = cell.verif_neighbors_mut() {
                    nb.swap(0, 1);
                }
            }
            true
        }
        Fault::RemoveCellRaw(c) => {
            let Some(k) = ck(*c) else { return false };
            if ckeys.len() < 2 {
                return false;
            }
            let u = tds.get_cell(k).unwrap().uuid();
            tds.verif_cells_raw_mut().remove(k);
            tds.verif_uuid_to_cell_key_mut().remove(&u);
            true
        }
        Fault::IsolatedVertex => {
            let Some(k0) = vk(0) else { return false };
            let mut v = *tds.get_vertex_by_key(k0).unwrap();
            let u = uuid_v4_from(0x150);
            v.verif_set_uuid_raw(u);
            v.verif_set_point_raw(Point::new([97.0; D]));
            v.incident_cell = None;
            let nk = tds.verif_vertices_raw_mut().insert(v);
            tds.verif_uuid_to_vertex_key_mut().insert(u, nk);
            true
        }
        Fault::MergeVertices(a, b) => {
            let (Some(ka), Some(kb)) = (vk(*a), vk(*b)) else { return false };
            if ka == kb {
                return false;
            }
            // identify a with b in every cell that does not already contain b
            let mut any = false;
            for &c in &ckeys {
                let cell = tds.get_cell_by_key_mut(c).unwrap();
                if cell.vertices().contains(&ka) && !cell.vertices().contains(&kb) {
                    let pos = cell.vertices().iter().position(|x| *x == ka).unwrap();
                    cell.verif_vertices_mut()[pos] = kb;
                    any = true;
                }
            }
            any
        }
        Fault::ReplaceCellVertex(c, slot, by) => {
            let (Some(k), Some(nv)) = (ck(*c), vk(*by)) else { return false };
            if *slot > D {
                return false;
            }
            let cell = tds.get_cell_by_key_mut(k).unwrap();
            if cell.vertices().contains(&nv) {
                return false;
            }
            cell.verif_vertices_mut()[*slot] = nv;
            true
        }
        Fault::MoveVertexOntoFacet(c, slot) | Fault::MoveVertexAcrossFacet(c, slot) => {
            if *c >= snap.cells.len() || *slot > D {
                return false;
            }
            let cell = &snap.cells[*c];
            let facet: Vec<[f64; D]> = cell.vi.iter().enumerate().filter(|(i, _)| i != slot).map(|(_, &k)| snap.verts[k].c).collect();
            let cen: [f64; D] = std::array::from_fn(|i| facet.iter().map(|p| p[i]).sum::<f64>() / D as f64);
            let apex = snap.verts[cell.vi[*slot]].c;
            let target: [f64; D] = if matches!(f, Fault::MoveVertexOntoFacet(..)) { cen } else { std::array::from_fn(|i| cen[i] + 0.75 * (cen[i] - apex[i])) };
            // only exactly representable targets keep the reference exact: centroid of D points is exact when D is a power of two
            let vkey = cell.v[*slot];
            tds.get_vertex_by_key_mut(vkey).unwrap().verif_set_point_raw(Point::new(target));
            true
        }
        Fault::MoveVertexFar(v) => {
            let Some(k) = vk(*v) else { return false };
            tds.get_vertex_by_key_mut(k).unwrap().verif_set_point_raw(Point::new([53.0; D]));
            true
        }
    }
}

fn catalogue<const D: usize>(nv: usize, nc: usize) -> Vec<Fault> {
    let mut f = Vec::new();
    for v in 0..nv {
        f.extend([Fault::CoordNan(v), Fault::CoordInf(v), Fault::VertexUuidNil(v), Fault::UuidMapRemoveVertex(v), Fault::UuidMapRedirectVertex(v), Fault::IncidentDangling(v), Fault::IncidentWrongCell(v), Fault::MoveVertexFar(v)]);
        for w in 0..nv {
            if v != w {
                f.push(Fault::MergeVertices(v, w));
                f.push(Fault::VertexUuidDuplicate(v, w));
            }
        }
    }
    for c in 0..nc {
        for e in 0..nc {
            if c != e {
                f.push(Fault::CellUuidDuplicate(c, e));
            }
        }
    }
    for c in 0..nc {
        f.extend([Fault::CellDropVertex(c), Fault::CellExtraVertex(c), Fault::NeighborBufferShort(c), Fault::DuplicateCell(c), Fault::NeighborSlotsRotated(c), Fault::SwapVerticesOnly(c), Fault::SwapVerticesAndNeighbors(c), Fault::RemoveCellRaw(c)]);
        for s in 0..=D {
            f.extend([
                Fault::CellRepeatVertex(c, s),
                Fault::CellRefRemovedVertex(c, s),
                Fault::NeighborNoneOnInterior(c, s),
                Fault::NeighborSomeOnBoundary(c, s),
                Fault::NeighborWrongCell(c, s),
                Fault::NeighborDangling(c, s),
                Fault::MoveVertexOntoFacet(c, s),
                Fault::MoveVertexAcrossFacet(c, s),
            ]);
            for by in 0..nv {
                f.push(Fault::ReplaceCellVertex(c, s, by));
            }
        }
    }
    f.push(Fault::IsolatedVertex);
    f
}

struct Cn {
    shapes: AtomicU64,
    shapes_refused: AtomicU64,
    subjects: AtomicU64,
    injected: AtomicU64,
    level_hits: [AtomicU64; 5],
    benign: AtomicU64,
    uncertain: AtomicU64,
}

struct LibVerdict {
    l1: bool,
    l2: bool,
    l3: bool,
    l3c: bool,
    tds_validate: bool,
    tri_validate: bool,
    dt_validate: bool,
    dt_l4: bool,
    report_ok: bool,
}

fn lib_verdict<K: Kernel<D, Scalar = f64>, const D: usize>(dt: &DtI<K, D>) -> Result<LibVerdict, String> {
    guarded(|| {
        let t = dt.tds();
        let tri = dt.as_triangulation();
        LibVerdict {
            l1: t.vertices().all(|(_, v)| (*v).is_valid().is_ok()) && t.cells().all(|(_, c)| c.is_valid().is_ok()),
            l2: t.is_valid().is_ok(),
            l3: tri.is_valid().is_ok(),
            l3c: tri.validate_at_completion().is_ok(),
            tds_validate: t.validate().is_ok(),
            tri_validate: tri.validate().is_ok(),
            dt_validate: dt.validate().is_ok(),
            dt_l4: dt.is_valid().is_ok(),
            report_ok: dt.validation_report().is_ok(),
        }
    })
}

fn judge<K: Kernel<D, Scalar = f64>, const D: usize>(rep: &Report, cn: &Cn, label: &str, faults: &[Fault], dt: &DtI<K, D>, replay: &dyn Fn() -> Value) {
    judge_labelled(rep, cn, label, faults, dt, replay, None);
}

fn judge_labelled<K: Kernel<D, Scalar = f64>, const D: usize>(rep: &Report, cn: &Cn, label: &str, faults: &[Fault], dt: &DtI<K, D>, replay: &dyn Fn() -> Value, shape: Option<&str>) {
    let fclass: Vec<String> = match shape {
        Some(sh) => vec![format!("shape:{sh}")],
        None => faults.iter().map(class).collect(),
    };
    let lv = match lib_verdict(dt) {
        Ok(v) => v,
        Err(p) => {
            rep.violation(Finding { signature: json!({"check": "validator_panicked", "faults": fclass}), description: format!("a validator panicked on a corrupted complex ({faults:?}): {p}"), replay: replay() });
            return;
        }
    };
    let s = snap_of(dt);
    let lk = lookups_of(dt, &s);
    let mut rv = Verdict::default();
    rv.l1 = refval::level1(&s);
    if rv.l1.is_empty() {
        rv.l2 = refval::level2(&s, Some(&lk));
        if rv.l2.is_empty() {
            refval::level3(&s, guarantee_of(dt.topology_guarantee()), false, &mut rv);
        }
    }
    // completion-time vertex links (PLManifold): recomputed separately
    let mut rvc = Verdict::default();
    if rv.ok123() {
        refval::level3(&s, guarantee_of(dt.topology_guarantee()), true, &mut rvc);
    }
    let sig = |check: &str, extra: Value| json!({"check": check, "faults": fclass, "D": D, "guarantee": format!("{:?}", dt.topology_guarantee()), "detail": extra});
    let uncertain = rv.uncertain_orientation > 0 || rvc.uncertain_orientation > 0;
    // owning level = lowest level at which the reference fails
    let owner = if !rv.l1.is_empty() { 1 } else if !rv.l2.is_empty() { 2 } else if !rv.l3.is_empty() { 3 } else if !rvc.l3.is_empty() { 4 } else { 0 };
    cn.level_hits[owner].fetch_add(1, Ordering::Relaxed);
    let why = rv.first().or_else(|| rvc.l3.first().map(|e| format!("L3(completion): {e}"))).unwrap_or_default();
    rep.outcome(&format!("{label}:owner=L{owner}"));
    let lib = [true, lv.l1, lv.l2, lv.l3, lv.l3c];
    if uncertain && owner >= 3 {
        cn.uncertain.fetch_add(1, Ordering::Relaxed);
    } else {
        // levels below the owner must accept (no false alarm); the owner must reject
        for lvl in 1..=4usize {
            if owner == 0 || lvl < owner {
                // Level 3 verdicts of the library are only defined on structurally valid input
                if !lib[lvl] && !(uncertain && lvl >= 3) {
                    rep.violation(Finding {
                        signature: sig("false_alarm", json!({"level": lvl, "reference_owner": owner})),
                        description: format!("library level {lvl} rejects a complex ({faults:?}) on which the reference finds every invariant of that level satisfied (reference owner level: {owner})"),
                        replay: replay(),
                    });
                    return;
                }
            } else if lvl == owner {
                if lib[lvl] {
                    rep.violation(Finding {
                        signature: sig("fault_not_rejected_by_owning_level", json!({"level": lvl, "reference": vcore::report::msg_class(&why)})),
                        description: format!("fault {faults:?}: the reference finds level {lvl} violated ({why}) but the library's level-{lvl} validator accepts"),
                        replay: replay(),
                    });
                    return;
                }
                break;
            }
        }
    }
    if owner == 0 {
        cn.benign.fetch_add(1, Ordering::Relaxed);
    }
    // cumulative == conjunction; report empty <=> validate ok
    let cum_ok = lv.tds_validate == (lv.l1 && lv.l2) && (!lv.tds_validate || lv.tri_validate == (lv.l3 && lv.l3c)) && (!lv.tri_validate || lv.dt_validate == lv.dt_l4) && (lv.tds_validate || !lv.tri_validate) && (lv.tri_validate || !lv.dt_validate);
    if !cum_ok {
        rep.violation(Finding {
            signature: sig("cumulative_ne_conjunction", json!(null)),
            description: format!("cumulative validators are not the conjunction of their levels: L1={} L2={} L3={} L3c={} L4={} tds.validate={} tri.validate={} dt.validate={}", lv.l1, lv.l2, lv.l3, lv.l3c, lv.dt_l4, lv.tds_validate, lv.tri_validate, lv.dt_validate),
            replay: replay(),
        });
    }
    if lv.report_ok != lv.dt_validate {
        rep.violation(Finding { signature: sig("report_ne_validate", json!(null)), description: format!("validation_report().is_ok()={} but validate().is_ok()={}", lv.report_ok, lv.dt_validate), replay: replay() });
    }
}


// ---------------------------------------------------------------------------------------------------------
// Shapes: abstract complexes that no single local fault produces (pinched ridges / vertices in D >= 4, ...),
// obtained by coning lower-dimensional (faulted) complexes and loaded through the public Deserialize impl.
// ---------------------------------------------------------------------------------------------------------

/// abstract complex with coordinates
#[derive(Clone, Debug)]
struct Cx<const D: usize> {
    verts: Vec<[f64; D]>,
    cells: Vec<Vec<usize>>,
}

fn cx_of<const D: usize>(s: &vcore::snap::Snap<D>) -> Cx<D> {
    Cx { verts: s.verts.iter().map(|v| v.c).collect(), cells: s.cells.iter().map(|c| c.vi.clone()).collect() }
}

/// cone over `b` with apex (1, .., 1, 4); E must be D + 1
fn cone<const D: usize, const E: usize>(b: &Cx<D>) -> Cx<E> {
    assert_eq!(E, D + 1);
    let mut verts: Vec<[f64; E]> = b.verts.iter().map(|p| std::array::from_fn(|i| if i < D { p[i] } else { 0.0 })).collect();
    let apex = verts.len();
    verts.push(std::array::from_fn(|i| if i < D { 1.0 } else { 4.0 }));
    let cells = b.cells.iter().map(|c| { let mut c = c.clone(); c.push(apex); c }).collect();
    Cx { verts, cells }
}

/// Load through `Deserialize for Tds` (vertex order of each cell fixed so that non-flat cells are positively oriented).
fn load_cx<const D: usize>(cx: &Cx<D>, g: TopologyGuarantee) -> Result<DtI<FastKernel<f64>, D>, String> {
    let vu: Vec<String> = (0..cx.verts.len()).map(|i| uuid_v4_from(0x5000 + i as u128).to_string()).collect();
    let mut vertices = vec![json!({"value": null, "version": 0})];
    for (i, p) in cx.verts.iter().enumerate() {
        vertices.push(json!({"value": {"data": i as i32, "point": p.to_vec(), "uuid": vu[i]}, "version": 1}));
    }
    let mut cells = vec![json!({"value": null, "version": 0})];
    let mut cell_vertices = serde_json::Map::new();
    for (i, c) in cx.cells.iter().enumerate() {
        if c.len() != D + 1 || c.iter().any(|&k| k >= cx.verts.len()) {
            return Err("not a pure D-complex".into());
        }
        let mut c = c.clone();
        let pts: Vec<&[f64]> = c.iter().map(|&k| &cx.verts[k][..]).collect();
        if vcore::exact::orient(&pts).sign < 0 {
            c.swap(0, 1);
        }
        let cu = uuid_v4_from(0x9_0000 + i as u128).to_string();
        cells.push(json!({"value": {"uuid": cu}, "version": 1}));
        cell_vertices.insert(cu, json!(c.iter().map(|&k| vu[k].clone()).collect::<Vec<_>>()));
    }
    let doc = json!({"vertices": vertices, "cells": cells, "cell_vertices": cell_vertices});
    let text = doc.to_string();
    match guarded(|| serde_json::from_str::<delaunay::core::triangulation_data_structure::Tds<f64, i32, (), D>>(&text)) {
        Ok(Ok(t)) => Ok(delaunay::core::delaunay_triangulation::DelaunayTriangulation::from_tds_with_topology_guarantee(t, FastKernel::default(), g)),
        Ok(Err(e)) => Err(format!("refused: {e}")),
        Err(p) => Err(format!("panic: {p}")),
    }
}

fn judge_cx<const D: usize>(rep: &Report, cn: &Cn, label: &str, cx: &Cx<D>, prov: &Value) {
    for g in [TopologyGuarantee::PLManifold, TopologyGuarantee::Pseudomanifold, TopologyGuarantee::PLManifoldStrict] {
        match load_cx(cx, g) {
            Ok(dt) => {
                cn.shapes.fetch_add(1, Ordering::Relaxed);
                let fake = [Fault::IsolatedVertex; 0];
                let rj = || json!({"D": D, "shape": label, "provenance": prov, "guarantee": format!("{g:?}"), "vertices": cx.verts.iter().map(|p| p.to_vec()).collect::<Vec<_>>(), "cells": cx.cells});
                judge_labelled(rep, cn, label, &fake, &dt, &rj, Some(label));
            }
            Err(e) if e.starts_with("panic") => {
                rep.violation(Finding { signature: json!({"check": "load_panicked", "shape": label, "D": D}), description: format!("loading shape {label}: {e}"), replay: json!({"D": D, "shape": label, "provenance": prov, "vertices": cx.verts.iter().map(|p| p.to_vec()).collect::<Vec<_>>(), "cells": cx.cells}) });
            }
            Err(_) => {
                cn.shapes_refused.fetch_add(1, Ordering::Relaxed);
            }
        }
    }
}

/// topological single faults of the catalogue, applied to the abstract complex
fn cx_faults<const D: usize>(b: &Cx<D>) -> Vec<(String, Cx<D>)> {
    let mut out = vec![("none".to_string(), b.clone())];
    let nv = b.verts.len();
    for a in 0..nv {
        for w in 0..nv {
            if a != w {
                let mut c = b.clone();
                let mut any = false;
                for cell in &mut c.cells {
                    if cell.contains(&a) && !cell.contains(&w) {
                        for k in cell.iter_mut() {
                            if *k == a {
                                *k = w;
                                any = true;
                            }
                        }
                    }
                }
                if any {
                    out.push((format!("merge({a}->{w})"), c));
                }
            }
        }
    }
    for ci in 0..b.cells.len() {
        let mut c = b.clone();
        c.cells.remove(ci);
        if !c.cells.is_empty() {
            out.push((format!("remove_cell({ci})"), c));
        }
        for slot in 0..=D {
            for by in 0..nv {
                if !b.cells[ci].contains(&by) {
                    let mut c = b.clone();
                    c.cells[ci][slot] = by;
                    out.push((format!("replace({ci},{slot},{by})"), c));
                }
            }
        }
    }
    out
}

/// every base complex (library-built subject of dimension B + each topological fault), coned up to dimension 5
fn run_shapes<const B: usize, const C1: usize, const C2: usize, const C3: usize>(rep: &Report, cn: &Cn, family: &str, alphabet: &[[f64; B]], sizes: std::ops::RangeInclusive<usize>, stride: usize, bounds: &mut Vec<Value>) {
    let mut sets: Vec<Vec<[f64; B]>> = Vec::new();
    for k in sizes.clone() {
        for sub in subsets(alphabet.len(), k) {
            sets.push(sub.iter().map(|&i| alphabet[i]).collect());
        }
    }
    let sets: Vec<Vec<[f64; B]>> = sets.into_iter().step_by(stride).collect();
    sets.par_iter().for_each(|pts| {
        let Some(seed) = corpus::build::<FastKernel<f64>, B>(pts, TopologyGuarantee::PLManifold) else { return };
        let base = cx_of(&snap_of(&seed));
        for (fname, b) in cx_faults(&base) {
            let prov = json!({"base_points": pts.iter().map(|p| p.to_vec()).collect::<Vec<_>>(), "base_fault": fname});
            let c1: Cx<C1> = cone::<B, C1>(&b);
            judge_cx(rep, cn, &format!("cone^1(D{B}:{})", fname.split('(').next().unwrap_or("?")), &c1, &prov);
            if C2 == C1 + 1 {
                let c2: Cx<C2> = cone::<C1, C2>(&c1);
                judge_cx(rep, cn, &format!("cone^2(D{B}:{})", fname.split('(').next().unwrap_or("?")), &c2, &prov);
                if C3 == C2 + 1 {
                    let c3: Cx<C3> = cone::<C2, C3>(&c2);
                    judge_cx(rep, cn, &format!("cone^3(D{B}:{})", fname.split('(').next().unwrap_or("?")), &c3, &prov);
                }
            }
        }
    });
    bounds.push(json!({"family": family, "base_dimension": B, "base_point_sets": sets.len(), "subset_sizes": format!("{sizes:?}"), "stride": stride, "coned_to": [C1, C2, C3]}));
}

/// 2-D complex whose vertex r has a link of two disjoint circles, everything else regular: two closed fans around r
/// (radius 2 and radius 6; they overlap geometrically but share only r), joined facet-to-facet by a strip of four
/// triangles. Adjacent triangles lie on opposite sides of their common edge, so the orientation is coherent. Coned, r
/// becomes a pinched ridge (link = two circles) while every facet has degree <= 2 and the dual graph is connected.
fn pinched_fan_2d(with_second_fan: bool) -> Cx<2> {
    let mut verts: Vec<[f64; 2]> = vec![[0.0, 0.0], [2.0, 0.0], [0.0, 2.0], [-2.0, 0.0], [0.0, -2.0], [6.0, 0.0], [0.0, 6.0], [-6.0, 0.0], [0.0, -6.0], [1.0, 2.0], [10.0, 3.0]];
    let (r, c, d, x, y) = (0usize, [1usize, 2, 3, 4], [5usize, 6, 7, 8], 9usize, 10usize);
    let mut cells = Vec::new();
    for i in 0..4 {
        cells.push(vec![r, c[i], c[(i + 1) % 4]]);
    }
    // strip from edge (c0, c1) to edge (d0, d3), approached from outside the second fan
    cells.extend([vec![c[0], c[1], x], vec![c[1], x, y], vec![x, y, d[0]], vec![y, d[0], d[3]]]);
    if with_second_fan {
        for i in 0..4 {
            cells.push(vec![r, d[i], d[(i + 1) % 4]]);
        }
    } else {
        verts.truncate(11);
    }
    Cx { verts, cells }
}

/// 3-D complex whose vertex v has a link of two disjoint spheres (two closed octahedral stars of radius 2 and 6
/// sharing only v) joined by a chain of five tetrahedra; every edge link is a single circle or arc.
fn pinched_star_3d(with_second_star: bool) -> Cx<3> {
    let mut verts: Vec<[f64; 3]> = vec![[0.0; 3]];
    for rad in [2.0, 6.0] {
        for ax in 0..3 {
            for sg in [1.0, -1.0] {
                let mut p = [0.0; 3];
                p[ax] = sg * rad;
                verts.push(p);
            }
        }
    }
    // index of (sign * rad) e_ax: 1 + 6 * ring + 2 * ax + (sign < 0)
    let idx = |ring: usize, ax: usize, neg: bool| 1 + 6 * ring + 2 * ax + usize::from(neg);
    verts.push([-9.0, 3.0, 9.0]);
    verts.push([-9.0, -9.0, -9.0]);
    let (x, y) = (13usize, 14usize);
    let mut cells = Vec::new();
    for ring in 0..(1 + usize::from(with_second_star)) {
        for sx in [false, true] {
            for sy in [false, true] {
                for sz in [false, true] {
                    cells.push(vec![0, idx(ring, 0, sx), idx(ring, 1, sy), idx(ring, 2, sz)]);
                }
            }
        }
    }
    let (p0, p1, p2) = (idx(0, 0, false), idx(0, 1, false), idx(0, 2, false));
    let (q0, q1, q2) = (idx(1, 2, false), idx(1, 1, true), idx(1, 0, true));
    cells.extend([vec![p0, p1, p2, x], vec![p1, p2, x, y], vec![p2, x, y, q0], vec![x, y, q0, q1], vec![y, q0, q1, q2]]);
    Cx { verts, cells }
}

/// 2-D annulus (square ring of eight triangles). Its cone is a 3-D complex in which every invariant holds except that
/// the link of the apex - a boundary vertex - is a disk with a hole.
fn annulus_2d() -> Cx<2> {
    let verts: Vec<[f64; 2]> = vec![[0.0, 0.0], [12.0, 0.0], [12.0, 12.0], [0.0, 12.0], [4.0, 4.0], [8.0, 4.0], [8.0, 8.0], [4.0, 8.0]];
    let mut cells = Vec::new();
    for i in 0..4 {
        let j = (i + 1) % 4;
        cells.push(vec![i, j, 4 + i]);
        cells.push(vec![j, 4 + j, 4 + i]);
    }
    Cx { verts, cells }
}

/// hand-built shapes and all their cones up to D = 5, plus every topological single fault of each
fn run_extra_shapes(rep: &Report, cn: &Cn, bounds: &mut Vec<Value>) {
    let mut n = 0u64;
    for second in [true, false] {
        let name = if second { "pinched_fan" } else { "fan_with_strip" };
        for (fname, b) in cx_faults(&pinched_fan_2d(second)) {
            let fclass = fname.split('(').next().unwrap_or("?").to_string();
            let prov = json!({"shape": name, "fault": fname});
            judge_cx(rep, cn, &format!("{name}(D2:{fclass})"), &b, &prov);
            let c1: Cx<3> = cone::<2, 3>(&b);
            judge_cx(rep, cn, &format!("cone^1({name}:{fclass})"), &c1, &prov);
            let c2: Cx<4> = cone::<3, 4>(&c1);
            judge_cx(rep, cn, &format!("cone^2({name}:{fclass})"), &c2, &prov);
            let c3: Cx<5> = cone::<4, 5>(&c2);
            judge_cx(rep, cn, &format!("cone^3({name}:{fclass})"), &c3, &prov);
            n += 4;
        }
    }
    for (fname, b) in cx_faults(&annulus_2d()).into_iter().step_by(3) {
        let fclass = fname.split('(').next().unwrap_or("?").to_string();
        let prov = json!({"shape": "annulus", "fault": fname});
        judge_cx(rep, cn, &format!("annulus(D2:{fclass})"), &b, &prov);
        let c1: Cx<3> = cone::<2, 3>(&b);
        judge_cx(rep, cn, &format!("cone^1(annulus:{fclass})"), &c1, &prov);
        let c2: Cx<4> = cone::<3, 4>(&c1);
        judge_cx(rep, cn, &format!("cone^2(annulus:{fclass})"), &c2, &prov);
        let c3: Cx<5> = cone::<4, 5>(&c2);
        judge_cx(rep, cn, &format!("cone^3(annulus:{fclass})"), &c3, &prov);
        n += 4;
    }
    for second in [true, false] {
        let name = if second { "pinched_star" } else { "star_with_chain" };
        let base = pinched_star_3d(second);
        let variants: Vec<(String, Cx<3>)> = if second { cx_faults(&base).into_iter().step_by(7).collect() } else { vec![("none".into(), base)] };
        for (fname, b) in variants {
            let fclass = fname.split('(').next().unwrap_or("?").to_string();
            let prov = json!({"shape": name, "fault": fname});
            judge_cx(rep, cn, &format!("{name}(D3:{fclass})"), &b, &prov);
            let c1: Cx<4> = cone::<3, 4>(&b);
            judge_cx(rep, cn, &format!("cone^1({name}:{fclass})"), &c1, &prov);
            let c2: Cx<5> = cone::<4, 5>(&c1);
            judge_cx(rep, cn, &format!("cone^2({name}:{fclass})"), &c2, &prov);
            n += 3;
        }
    }
    bounds.push(json!({"family": "hand-built pinched fan (2-D) / pinched star (3-D), with and without the second fan / star, each with every topological single fault, coned up to D=5", "complexes": n}));
}

fn run_set<K: Kernel<D, Scalar = f64>, const D: usize>(rep: &Report, cn: &Cn, kname: &str, family: &str, pts: &[[f64; D]], guarantees: &[TopologyGuarantee], pairs: bool) {
    for &g in guarantees {
        let Some(seed) = corpus::build::<K, D>(pts, g) else { continue };
        cn.subjects.fetch_add(1, Ordering::Relaxed);
        let rj = |faults: &[Fault]| json!({"D": D, "kernel": kname, "family": family, "points": pts.iter().map(|p| p.to_vec()).collect::<Vec<_>>(), "guarantee": format!("{g:?}"), "faults": faults.iter().map(|f| format!("{f:?}")).collect::<Vec<_>>()});
        // uncorrupted, library-produced: every validator must accept
        judge(rep, cn, "uncorrupted", &[], &seed, &|| rj(&[]));
        let cat = catalogue::<D>(seed.number_of_vertices(), seed.number_of_cells());
        for f in &cat {
            let mut d = seed.clone();
            if !inject(&mut d, f) {
                continue;
            }
            cn.injected.fetch_add(1, Ordering::Relaxed);
            judge(rep, cn, &class(f), std::slice::from_ref(f), &d, &|| rj(std::slice::from_ref(f)));
        }
        if pairs && seed.number_of_cells() <= 4 {
            for (i, f1) in cat.iter().enumerate() {
                for f2 in cat.iter().skip(i + 1).step_by(3) {
                    let mut d = seed.clone();
                    if !inject(&mut d, f1) || guarded(|| inject(&mut d, f2)) != Ok(true) {
                        continue;
                    }
                    cn.injected.fetch_add(1, Ordering::Relaxed);
                    let fs = [f1.clone(), f2.clone()];
                    judge(rep, cn, "pair", &fs, &d, &|| rj(&fs));
                }
            }
        }
    }
    if pts.len() == D + 2 {
        rep.sample(json!({"D": D, "kernel": kname, "family": family, "points": pts.iter().map(|p| p.to_vec()).collect::<Vec<_>>(), "catalogue_size": catalogue::<D>(pts.len(), 3).len()}), 6);
    }
}

fn run_family<const D: usize>(rep: &Report, cn: &Cn, family: &str, alphabet: &[[f64; D]], sizes: std::ops::RangeInclusive<usize>, guarantees: &[TopologyGuarantee], pairs: bool, bounds: &mut Vec<Value>) {
    let mut sets: Vec<Vec<[f64; D]>> = Vec::new();
    for k in sizes.clone() {
        for s in subsets(alphabet.len(), k) {
            sets.push(s.iter().map(|&i| alphabet[i]).collect());
        }
    }
    sets.par_iter().for_each(|pts| {
        run_set::<FastKernel<f64>, D>(rep, cn, "fast", family, pts, guarantees, pairs);
        run_set::<RobustKernel<f64>, D>(rep, cn, "robust", family, pts, guarantees, false);
    });
    bounds.push(json!({"D": D, "family": family, "alphabet": alphabet.len(), "subset_sizes": format!("{sizes:?}"), "point_sets": sets.len(), "guarantees": guarantees.len(), "fault_pairs_on_tiny_complexes": pairs}));
}

fn main() {
    let args = parse_args();
    if let Some(p) = &args.replay {
        std::process::exit(vcore::replay::generic(p));
    }
    silence_panics();
    let rep = Report::new("C05", &args);
    vcore::exact::self_check();
    let thorough = args.tier == Tier::Thorough;
    let x = usize::from(thorough);
    let cn = Cn { shapes: AtomicU64::new(0), shapes_refused: AtomicU64::new(0), subjects: AtomicU64::new(0), injected: AtomicU64::new(0), level_hits: std::array::from_fn(|_| AtomicU64::new(0)), benign: AtomicU64::new(0), uncertain: AtomicU64::new(0) };
    let mut bounds = Vec::new();
    let all_g = [TopologyGuarantee::PLManifold, TopologyGuarantee::Pseudomanifold, TopologyGuarantee::PLManifoldStrict];
    let pl = [TopologyGuarantee::PLManifold];
    // coordinates are multiples of 4 so that facet centroids (division by D) stay exactly representable for D = 2, 4
    let g2: Vec<[f64; 2]> = alpha::grid::<2>(3).into_iter().map(|p| [p[0] * 4.0, p[1] * 4.0]).collect();
    run_family::<2>(&rep, &cn, "4*G2(3) subsets", &g2, 3..=5 + x, &all_g, true, &mut bounds);
    let mut c3: Vec<[f64; 3]> = alpha::grid::<3>(2).into_iter().map(|p| [p[0] * 6.0, p[1] * 6.0, p[2] * 6.0]).collect();
    c3.push([3.0; 3]);
    run_family::<3>(&rep, &cn, "6*cube3+centre subsets", &c3, 4..=5 + x, &all_g, thorough, &mut bounds);
    let a4: Vec<[f64; 4]> = alpha::cube_alphabet::<4>().into_iter().take(8).map(|p| p.map(|v| v * 4.0)).collect();
    run_family::<4>(&rep, &cn, "4*cube alphabet subsets", &a4, 5..=6, &pl, false, &mut bounds);
    let a5: Vec<[f64; 5]> = alpha::cube_alphabet::<5>().into_iter().take(8).map(|p| p.map(|v| v * 5.0)).collect();
    run_family::<5>(&rep, &cn, "5*cube alphabet subsets", &a5, 6..=6 + x, &pl, false, &mut bounds);
    // shapes: cones (to D = 3, 4, 5) over every D=2 subject + topological fault, cones (to D = 4, 5) over D=3 ones
    let g2s: Vec<[f64; 2]> = alpha::grid::<2>(3).into_iter().map(|p| [p[0] * 4.0, p[1] * 4.0]).collect();
    run_shapes::<2, 3, 4, 5>(&rep, &cn, "cones over 4*G2(3) subsets", &g2s, 4..=5, if thorough { 1 } else { 5 }, &mut bounds);
    // larger bases: a 2-D triangulation needs 6 points before it has a triangle with three interior edges; removing it
    // leaves an annulus, and the cone over an annulus is the smallest complex whose only defect is a boundary vertex
    // with a two-holed link
    run_shapes::<2, 3, 4, 5>(&rep, &cn, "cones over 4*G2(3) subsets (6-7 points)", &g2s, 6..=6 + x, if thorough { 1 } else { 4 }, &mut bounds);
    run_shapes::<3, 4, 5, 0>(&rep, &cn, "cones over 6*cube3+centre subsets", &c3, 5..=5 + x, if thorough { 1 } else { 7 }, &mut bounds);
    run_extra_shapes(&rep, &cn, &mut bounds);
    let inj = cn.injected.load(Ordering::Relaxed);
    let hits: Vec<u64> = cn.level_hits.iter().map(|a| a.load(Ordering::Relaxed)).collect();
    if inj < 10_000 || hits[1] == 0 || hits[2] == 0 || hits[3] == 0 {
        machinery_fail(&format!("C05 vacuous: {inj} injected faults, owning-level histogram {hits:?}"));
    }
    let cov = json!({
        "evaluations": inj + cn.subjects.load(Ordering::Relaxed),
        "distinct_nontrivial": hits[1] + hits[2] + hits[3] + hits[4],
        "rule": "every fault of the catalogue (29 kinds: duplicate vertex / cell UUID, non-finite coordinate, nil uuid, cell with missing / extra / repeated vertex, short neighbour buffer, uuid-map entry removed / redirected, cell referencing a removed vertex, dangling / wrong incident cell, duplicate cell, neighbour slot cleared / invented / wrong cell / dangling / rotated, vertex slots swapped with and without neighbour slots, raw cell removal, isolated vertex, two vertices identified, cell vertex replaced, vertex moved onto / across the opposite facet / far away) at every location of every batch-constructed subject (all three guarantees on D=2,3), plus a strided set of fault pairs on complexes with <= 4 cells; non-trivial = the reference assigns an owning level (lowest violated level)",
        "exhaustive": true,
        "subjects": cn.subjects.load(Ordering::Relaxed),
        "shapes_judged": cn.shapes.load(Ordering::Relaxed),
        "shapes_refused_at_load": cn.shapes_refused.load(Ordering::Relaxed),
        "faults_injected": inj,
        "owning_level_histogram": {"benign": hits[0], "L1": hits[1], "L2": hits[2], "L3": hits[3], "L3_completion": hits[4]},
        "geometric_verdicts_inside_band_skipped": cn.uncertain.load(Ordering::Relaxed),
        "bounds": bounds,
    });
    let code = rep.finish("fault_enumeration", cov, vec!["raw mutators are reached through the guarded hooks only".into(), "owning level = lowest level at which the independent reference fails; levels below it must accept, it must reject".into()], args.part.as_deref());
    std::process::exit(code);
}
