//! C05 — structural and topological validators accept exactly the valid complexes.
//! Every single fault of a catalogue at every location of every valid seed complex (pairs on tiny ones),
//! library verdict per level vs an independent reference verdict.

use delaunay::core::triangulation::TopologyGuarantee;
use delaunay::core::triangulation_data_structure::{CellKey, VertexKey};
use delaunay::geometry::kernel::{FastKernel, Kernel, RobustKernel};
use delaunay::geometry::point::Point;
use delaunay::geometry::traits::coordinate::Coordinate;
use rayon::prelude::*;
use serde_json::{Value, json};
use std::sync::atomic::{AtomicU64, Ordering};
use vcore::alpha::{self, subsets};
use vcore::corpus;
use vcore::dtx::{guarantee_of, guarded, lookups_of, silence_panics, snap_of};
use vcore::model::{self, DtI};
use vcore::refval::{self, Verdict};
use vcore::report::{Finding, Report, Tier, machinery_fail, parse_args};
use vcore::snap::uuid_v4_from;

#[derive(Clone, Debug)]
enum Fault {
    CoordNan(usize),
    CoordInf(usize),
    VertexUuidNil(usize),
    CellDropVertex(usize),
    CellExtraVertex(usize),
    CellRepeatVertex(usize, usize),
    NeighborBufferShort(usize),
    UuidMapRemoveVertex(usize),
    UuidMapRedirectVertex(usize),
    CellRefRemovedVertex(usize, usize),
    IncidentDangling(usize),
    IncidentWrongCell(usize),
    DuplicateCell(usize),
    NeighborNoneOnInterior(usize, usize),
    NeighborSomeOnBoundary(usize, usize),
    NeighborWrongCell(usize, usize),
    NeighborDangling(usize, usize),
    NeighborSlotsRotated(usize),
    SwapVerticesOnly(usize),
    SwapVerticesAndNeighbors(usize),
    RemoveCellRaw(usize),
    IsolatedVertex,
    MergeVertices(usize, usize),
    ReplaceCellVertex(usize, usize, usize),
    MoveVertexOntoFacet(usize, usize),
    MoveVertexAcrossFacet(usize, usize),
    MoveVertexFar(usize),
}

fn class(f: &Fault) -> String {
    let s = format!("{f:?}");
    s.split('(').next().unwrap_or("?").to_string()
}

/// Apply one fault through the raw hooks. Returns false if the location does not apply.
fn inject<K: Kernel<D, Scalar = f64>, const D: usize>(dt: &mut DtI<K, D>, f: &Fault) -> bool {
    let vkeys: Vec<VertexKey> = dt.vertices().map(|(k, _)| k).collect();
    let ckeys: Vec<CellKey> = dt.cells().map(|(k, _)| k).collect();
    let snap = snap_of(dt);
    let tds = dt.verif_tds_raw_mut();
    let vk = |i: usize| vkeys.get(i).copied();
    let ck = |i: usize| ckeys.get(i).copied();
    match f {
        Fault::CoordNan(v) | Fault::CoordInf(v) => {
            let Some(k) = vk(*v) else { return false };
            let vx = tds.get_vertex_by_key_mut(k).unwrap();
            let mut c = *vx.point().coords();
            c[0] = if matches!(f, Fault::CoordNan(_)) { f64::NAN } else { f64::INFINITY };
            vx.verif_set_point_raw(Point::new(c));
            true
        }
        Fault::VertexUuidNil(v) => {
            let Some(k) = vk(*v) else { return false };
            tds.get_vertex_by_key_mut(k).unwrap().verif_set_uuid_raw(uuid::Uuid::nil());
            true
        }
        Fault::CellDropVertex(c) => {
            let Some(k) = ck(*c) else { return false };
            tds.get_cell_by_key_mut(k).unwrap().verif_vertices_mut().pop();
            true
        }
        Fault::CellExtraVertex(c) => {
            let Some(k) = ck(*c) else { return false };
            let cell = tds.get_cell_by_key_mut(k).unwrap();
            let Some(extra) = vkeys.iter().copied().find(|x| !cell.vertices().contains(x)) else { return false };
            cell.verif_vertices_mut().push(extra);
            true
        }
        Fault::CellRepeatVertex(c, slot) => {
            let Some(k) = ck(*c) else { return false };
            let cell = tds.get_cell_by_key_mut(k).unwrap();
            if *slot > D {
                return false;
            }
            let other = cell.vertices()[(*slot + 1) % (D + 1)];
            cell.verif_vertices_mut()[*slot] = other;
            true
        }
        Fault::NeighborBufferShort(c) => {
            let Some(k) = ck(*c) else { return false };
            match tds.get_cell_by_key_mut(k).unwrap().verif_neighbors_mut() {
                Some(nb) => {
                    nb.pop();
                    true
                }
                None => false,
            }
        }
        Fault::UuidMapRemoveVertex(v) => {
            let Some(k) = vk(*v) else { return false };
            let u = tds.get_vertex_by_key(k).unwrap().uuid();
            tds.verif_uuid_to_vertex_key_mut().remove(&u);
            true
        }
        Fault::UuidMapRedirectVertex(v) => {
            let (Some(k), Some(other)) = (vk(*v), vk((*v + 1) % vkeys.len())) else { return false };
            if k == other {
                return false;
            }
            let u = tds.get_vertex_by_key(k).unwrap().uuid();
            tds.verif_uuid_to_vertex_key_mut().insert(u, other);
            true
        }
        Fault::CellRefRemovedVertex(c, slot) => {
            let Some(k) = ck(*c) else { return false };
            if *slot > D {
                return false;
            }
            tds.get_cell_by_key_mut(k).unwrap().verif_vertices_mut()[*slot] = model::foreign_vertex_key();
            true
        }
        Fault::IncidentDangling(v) => {
            let Some(k) = vk(*v) else { return false };
            tds.get_vertex_by_key_mut(k).unwrap().incident_cell = Some(model::foreign_cell_key());
            true
        }
        Fault::IncidentWrongCell(v) => {
            let Some(k) = vk(*v) else { return false };
            let Some(wrong) = snap.cells.iter().find(|c| !c.v.contains(&k)).map(|c| c.key) else { return false };
            tds.get_vertex_by_key_mut(k).unwrap().incident_cell = Some(wrong);
            true
        }
        Fault::DuplicateCell(c) => {
            let Some(k) = ck(*c) else { return false };
            let mut dup = tds.get_cell(k).unwrap().clone();
            let u = uuid_v4_from(0xd00d + *c as u128);
            dup.verif_set_uuid_raw(u);
            let nk = tds.verif_cells_raw_mut().insert(dup);
            tds.verif_uuid_to_cell_key_mut().insert(u, nk);
            true
        }
        Fault::NeighborNoneOnInterior(c, slot) | Fault::NeighborSomeOnBoundary(c, slot) | Fault::NeighborWrongCell(c, slot) | Fault::NeighborDangling(c, slot) => {
            let Some(k) = ck(*c) else { return false };
            if *slot > D {
                return false;
            }
            let cur = snap.cells[*c].nb.as_ref().and_then(|n| n.get(*slot).copied().flatten());
            let new = match f {
                Fault::NeighborNoneOnInterior(..) => {
                    if cur.is_none() {
                        return false;
                    }
                    None
                }
                Fault::NeighborSomeOnBoundary(..) => {
                    if cur.is_some() {
                        return false;
                    }
                    match ckeys.iter().copied().find(|x| *x != k) {
                        Some(x) => Some(x),
                        None => return false,
                    }
                }
                Fault::NeighborWrongCell(..) => match ckeys.iter().copied().find(|x| *x != k && Some(*x) != cur) {
                    Some(x) if cur.is_some() => Some(x),
                    _ => return false,
                },
                _ => Some(model::foreign_cell_key()),
            };
            let cell = tds.get_cell_by_key_mut(k).unwrap();
            let nb = cell.verif_neighbors_mut();
            if nb.is_none() {
                *nb = Some((0..=D).map(|_| None).collect());
            }
            nb.as_mut().unwrap()[*slot] = new;
            true
        }
        Fault::NeighborSlotsRotated(c) => {
            let Some(k) = ck(*c) else { return false };
            match tds.get_cell_by_key_mut(k).unwrap().verif_neighbors_mut() {
                Some(nb) => {
                    let first = nb[0];
                    for i in 0..D {
                        nb[i] = nb[i + 1];
                    }
                    nb[D] = first;
                    // a rotation of identical entries changes nothing
                    true
                }
                None => false,
            }
        }
        Fault::SwapVerticesOnly(c) | Fault::SwapVerticesAndNeighbors(c) => {
            let Some(k) = ck(*c) else { return false };
            let cell = tds.get_cell_by_key_mut(k).unwrap();
            cell.verif_vertices_mut().swap(0, 1);
            if matches!(f, Fault::SwapVerticesAndNeighbors(_)) {
                if let Some(nb) = cell.verif_neighbors_mut() {
                    nb.swap(0, 1);
                }
            }
            true
        }
        Fault::RemoveCellRaw(c) => {
            let Some(k) = ck(*c) else { return false };
            if ckeys.len() < 2 {
                return false;
            }
            let u = tds.get_cell(k).unwrap().uuid();
            tds.verif_cells_raw_mut().remove(k);
            tds.verif_uuid_to_cell_key_mut().remove(&u);
            true
        }
        Fault::IsolatedVertex => {
            let Some(k0) = vk(0) else { return false };
            let mut v = *tds.get_vertex_by_key(k0).unwrap();
            let u = uuid_v4_from(0x150);
            v.verif_set_uuid_raw(u);
            v.verif_set_point_raw(Point::new([97.0; D]));
            v.incident_cell = None;
            let nk = tds.verif_vertices_raw_mut().insert(v);
            tds.verif_uuid_to_vertex_key_mut().insert(u, nk);
            true
        }
        Fault::MergeVertices(a, b) => {
            let (Some(ka), Some(kb)) = (vk(*a), vk(*b)) else { return false };
            if ka == kb {
                return false;
            }
            // identify a with b in every cell that does not already contain b
            let mut any = false;
            for &c in &ckeys {
                let cell = tds.get_cell_by_key_mut(c).unwrap();
                if cell.vertices().contains(&ka) && !cell.vertices().contains(&kb) {
                    let pos = cell.vertices().iter().position(|x| *x == ka).unwrap();
                    cell.verif_vertices_mut()[pos] = kb;
                    any = true;
                }
            }
            any
        }
        Fault::ReplaceCellVertex(c, slot, by) => {
            let (Some(k), Some(nv)) = (ck(*c), vk(*by)) else { return false };
            if *slot > D {
                return false;
            }
            let cell = tds.get_cell_by_key_mut(k).unwrap();
            if cell.vertices().contains(&nv) {
                return false;
            }
            cell.verif_vertices_mut()[*slot] = nv;
            true
        }
        Fault::MoveVertexOntoFacet(c, slot) | Fault::MoveVertexAcrossFacet(c, slot) => {
            if *c >= snap.cells.len() || *slot > D {
                return false;
            }
            let cell = &snap.cells[*c];
            let facet: Vec<[f64; D]> = cell.vi.iter().enumerate().filter(|(i, _)| i != slot).map(|(_, &k)| snap.verts[k].c).collect();
            let cen: [f64; D] = std::array::from_fn(|i| facet.iter().map(|p| p[i]).sum::<f64>() / D as f64);
            let apex = snap.verts[cell.vi[*slot]].c;
            let target: [f64; D] = if matches!(f, Fault::MoveVertexOntoFacet(..)) { cen } else { std::array::from_fn(|i| cen[i] + 0.75 * (cen[i] - apex[i])) };
            // only exactly representable targets keep the reference exact: centroid of D points is exact when D is a power of two
            let vkey = cell.v[*slot];
            tds.get_vertex_by_key_mut(vkey).unwrap().verif_set_point_raw(Point::new(target));
            true
        }
        Fault::MoveVertexFar(v) => {
            let Some(k) = vk(*v) else { return false };
            tds.get_vertex_by_key_mut(k).unwrap().verif_set_point_raw(Point::new([53.0; D]));
            true
        }
    }
}

fn catalogue<const D: usize>(nv: usize, nc: usize) -> Vec<Fault> {
    let mut f = Vec::new();
    for v in 0..nv {
        f.extend([Fault::CoordNan(v), Fault::CoordInf(v), Fault::VertexUuidNil(v), Fault::UuidMapRemoveVertex(v), Fault::UuidMapRedirectVertex(v), Fault::IncidentDangling(v), Fault::IncidentWrongCell(v), Fault::MoveVertexFar(v)]);
        for w in 0..nv {
            if v != w {
                f.push(Fault::MergeVertices(v, w));
            }
        }
    }
    for c in 0..nc {
        f.extend([Fault::CellDropVertex(c), Fault::CellExtraVertex(c), Fault::NeighborBufferShort(c), Fault::DuplicateCell(c), Fault::NeighborSlotsRotated(c), Fault::SwapVerticesOnly(c), Fault::SwapVerticesAndNeighbors(c), Fault::RemoveCellRaw(c)]);
        for s in 0..=D {
            f.extend([
                Fault::CellRepeatVertex(c, s),
                Fault::CellRefRemovedVertex(c, s),
                Fault::NeighborNoneOnInterior(c, s),
                Fault::NeighborSomeOnBoundary(c, s),
                Fault::NeighborWrongCell(c, s),
                Fault::NeighborDangling(c, s),
                Fault::MoveVertexOntoFacet(c, s),
                Fault::MoveVertexAcrossFacet(c, s),
            ]);
            for by in 0..nv {
                f.push(Fault::ReplaceCellVertex(c, s, by));
            }
        }
    }
    f.push(Fault::IsolatedVertex);
    f
}

struct Cn {
    subjects: AtomicU64,
    injected: AtomicU64,
    level_hits: [AtomicU64; 5],
    benign: AtomicU64,
    uncertain: AtomicU64,
}

struct LibVerdict {
    l1: bool,
    l2: bool,
    l3: bool,
    l3c: bool,
    tds_validate: bool,
    tri_validate: bool,
    dt_validate: bool,
    dt_l4: bool,
    report_ok: bool,
}

fn lib_verdict<K: Kernel<D, Scalar = f64>, const D: usize>(dt: &DtI<K, D>) -> Result<LibVerdict, String> {
    guarded(|| {
        let t = dt.tds();
        let tri = dt.as_triangulation();
        LibVerdict {
            l1: t.vertices().all(|(_, v)| (*v).is_valid().is_ok()) && t.cells().all(|(_, c)| c.is_valid().is_ok()),
            l2: t.is_valid().is_ok(),
            l3: tri.is_valid().is_ok(),
            l3c: tri.validate_at_completion().is_ok(),
            tds_validate: t.validate().is_ok(),
            tri_validate: tri.validate().is_ok(),
            dt_validate: dt.validate().is_ok(),
            dt_l4: dt.is_valid().is_ok(),
            report_ok: dt.validation_report().is_ok(),
        }
    })
}

fn judge<K: Kernel<D, Scalar = f64>, const D: usize>(rep: &Report, cn: &Cn, label: &str, faults: &[Fault], dt: &DtI<K, D>, replay: &dyn Fn() -> Value) {
    let fclass: Vec<String> = faults.iter().map(class).collect();
    let lv = match lib_verdict(dt) {
        Ok(v) => v,
        Err(p) => {
            rep.violation(Finding { signature: json!({"check": "validator_panicked", "faults": fclass}), description: format!("a validator panicked on a corrupted complex ({faults:?}): {p}"), replay: replay() });
            return;
        }
    };
    let s = snap_of(dt);
    let lk = lookups_of(dt, &s);
    let mut rv = Verdict::default();
    rv.l1 = refval::level1(&s);
    if rv.l1.is_empty() {
        rv.l2 = refval::level2(&s, Some(&lk));
        if rv.l2.is_empty() {
            refval::level3(&s, guarantee_of(dt.topology_guarantee()), false, &mut rv);
        }
    }
    // completion-time vertex links (PLManifold): recomputed separately
    let mut rvc = Verdict::default();
    if rv.ok123() {
        refval::level3(&s, guarantee_of(dt.topology_guarantee()), true, &mut rvc);
    }
    let sig = |check: &str, extra: Value| json!({"check": check, "faults": fclass, "D": D, "guarantee": format!("{:?}", dt.topology_guarantee()), "detail": extra});
    let uncertain = rv.uncertain_orientation > 0 || rvc.uncertain_orientation > 0;
    // owning level = lowest level at which the reference fails
    let owner = if !rv.l1.is_empty() { 1 } else if !rv.l2.is_empty() { 2 } else if !rv.l3.is_empty() { 3 } else if !rvc.l3.is_empty() { 4 } else { 0 };
    cn.level_hits[owner].fetch_add(1, Ordering::Relaxed);
    let why = rv.first().or_else(|| rvc.l3.first().map(|e| format!("L3(completion): {e}"))).unwrap_or_default();
    rep.outcome(&format!("{label}:owner=L{owner}"));
    let lib = [true, lv.l1, lv.l2, lv.l3, lv.l3c];
    if uncertain && owner >= 3 {
        cn.uncertain.fetch_add(1, Ordering::Relaxed);
    } else {
        // levels below the owner must accept (no false alarm); the owner must reject
        for lvl in 1..=4usize {
            if owner == 0 || lvl < owner {
                // Level 3 verdicts of the library are only defined on structurally valid input
                if !lib[lvl] && !(uncertain && lvl >= 3) {
                    rep.violation(Finding {
                        signature: sig("false_alarm", json!({"level": lvl, "reference_owner": owner})),
                        description: format!("library level {lvl} rejects a complex ({faults:?}) on which the reference finds every invariant of that level satisfied (reference owner level: {owner})"),
                        replay: replay(),
                    });
                    return;
                }
            } else if lvl == owner {
                if lib[lvl] {
                    rep.violation(Finding {
                        signature: sig("fault_not_rejected_by_owning_level", json!({"level": lvl, "reference": vcore::report::msg_class(&why)})),
                        description: format!("fault {faults:?}: the reference finds level {lvl} violated ({why}) but the library's level-{lvl} validator accepts"),
                        replay: replay(),
                    });
                    return;
                }
                break;
            }
        }
    }
    if owner == 0 {
        cn.benign.fetch_add(1, Ordering::Relaxed);
    }
    // cumulative == conjunction; report empty <=> validate ok
    let cum_ok = lv.tds_validate == (lv.l1 && lv.l2) && (!lv.tds_validate || lv.tri_validate == (lv.l3 && lv.l3c)) && (!lv.tri_validate || lv.dt_validate == lv.dt_l4) && (lv.tds_validate || !lv.tri_validate) && (lv.tri_validate || !lv.dt_validate);
    if !cum_ok {
        rep.violation(Finding {
            signature: sig("cumulative_ne_conjunction", json!(null)),
            description: format!("cumulative validators are not the conjunction of their levels: L1={} L2={} L3={} L3c={} L4={} tds.validate={} tri.validate={} dt.validate={}", lv.l1, lv.l2, lv.l3, lv.l3c, lv.dt_l4, lv.tds_validate, lv.tri_validate, lv.dt_validate),
            replay: replay(),
        });
    }
    if lv.report_ok != lv.dt_validate {
        rep.violation(Finding { signature: sig("report_ne_validate", json!(null)), description: format!("validation_report().is_ok()={} but validate().is_ok()={}", lv.report_ok, lv.dt_validate), replay: replay() });
    }
}

fn run_set<K: Kernel<D, Scalar = f64>, const D: usize>(rep: &Report, cn: &Cn, kname: &str, family: &str, pts: &[[f64; D]], guarantees: &[TopologyGuarantee], pairs: bool) {
    for &g in guarantees {
        let Some(seed) = corpus::build::<K, D>(pts, g) else { continue };
        cn.subjects.fetch_add(1, Ordering::Relaxed);
        let rj = |faults: &[Fault]| json!({"D": D, "kernel": kname, "family": family, "points": pts.iter().map(|p| p.to_vec()).collect::<Vec<_>>(), "guarantee": format!("{g:?}"), "faults": faults.iter().map(|f| format!("{f:?}")).collect::<Vec<_>>()});
        // uncorrupted, library-produced: every validator must accept
        judge(rep, cn, "uncorrupted", &[], &seed, &|| rj(&[]));
        let cat = catalogue::<D>(seed.number_of_vertices(), seed.number_of_cells());
        for f in &cat {
            let mut d = seed.clone();
            if !inject(&mut d, f) {
                continue;
            }
            cn.injected.fetch_add(1, Ordering::Relaxed);
            judge(rep, cn, &class(f), std::slice::from_ref(f), &d, &|| rj(std::slice::from_ref(f)));
        }
        if pairs && seed.number_of_cells() <= 4 {
            for (i, f1) in cat.iter().enumerate() {
                for f2 in cat.iter().skip(i + 1).step_by(3) {
                    let mut d = seed.clone();
                    if !inject(&mut d, f1) || guarded(|| inject(&mut d, f2)) != Ok(true) {
                        continue;
                    }
                    cn.injected.fetch_add(1, Ordering::Relaxed);
                    let fs = [f1.clone(), f2.clone()];
                    judge(rep, cn, "pair", &fs, &d, &|| rj(&fs));
                }
            }
        }
    }
    if pts.len() == D + 2 {
        rep.sample(json!({"D": D, "kernel": kname, "family": family, "points": pts.iter().map(|p| p.to_vec()).collect::<Vec<_>>(), "catalogue_size": catalogue::<D>(pts.len(), 3).len()}), 6);
    }
}

fn run_family<const D: usize>(rep: &Report, cn: &Cn, family: &str, alphabet: &[[f64; D]], sizes: std::ops::RangeInclusive<usize>, guarantees: &[TopologyGuarantee], pairs: bool, bounds: &mut Vec<Value>) {
    let mut sets: Vec<Vec<[f64; D]>> = Vec::new();
    for k in sizes.clone() {
        for s in subsets(alphabet.len(), k) {
            sets.push(s.iter().map(|&i| alphabet[i]).collect());
        }
    }
    sets.par_iter().for_each(|pts| {
        run_set::<FastKernel<f64>, D>(rep, cn, "fast", family, pts, guarantees, pairs);
        run_set::<RobustKernel<f64>, D>(rep, cn, "robust", family, pts, guarantees, false);
    });
    bounds.push(json!({"D": D, "family": family, "alphabet": alphabet.len(), "subset_sizes": format!("{sizes:?}"), "point_sets": sets.len(), "guarantees": guarantees.len(), "fault_pairs_on_tiny_complexes": pairs}));
}

fn main() {
    let args = parse_args();
    if let Some(p) = &args.replay {
        std::process::exit(vcore::replay::generic(p));
    }
    silence_panics();
    let rep = Report::new("C05", &args);
    vcore::exact::self_check();
    let thorough = args.tier == Tier::Thorough;
    let x = usize::from(thorough);
    let cn = Cn { subjects: AtomicU64::new(0), injected: AtomicU64::new(0), level_hits: std::array::from_fn(|_| AtomicU64::new(0)), benign: AtomicU64::new(0), uncertain: AtomicU64::new(0) };
    let mut bounds = Vec::new();
    let all_g = [TopologyGuarantee::PLManifold, TopologyGuarantee::Pseudomanifold, TopologyGuarantee::PLManifoldStrict];
    let pl = [TopologyGuarantee::PLManifold];
    // coordinates are multiples of 4 so that facet centroids (division by D) stay exactly representable for D = 2, 4
    let g2: Vec<[f64; 2]> = alpha::grid::<2>(3).into_iter().map(|p| [p[0] * 4.0, p[1] * 4.0]).collect();
    run_family::<2>(&rep, &cn, "4*G2(3) subsets", &g2, 3..=5 + x, &all_g, true, &mut bounds);
    let mut c3: Vec<[f64; 3]> = alpha::grid::<3>(2).into_iter().map(|p| [p[0] * 6.0, p[1] * 6.0, p[2] * 6.0]).collect();
    c3.push([3.0; 3]);
    run_family::<3>(&rep, &cn, "6*cube3+centre subsets", &c3, 4..=5 + x, &all_g, thorough, &mut bounds);
    let a4: Vec<[f64; 4]> = alpha::cube_alphabet::<4>().into_iter().take(8).map(|p| p.map(|v| v * 4.0)).collect();
    run_family::<4>(&rep, &cn, "4*cube alphabet subsets", &a4, 5..=6, &pl, false, &mut bounds);
    let a5: Vec<[f64; 5]> = alpha::cube_alphabet::<5>().into_iter().take(8).map(|p| p.map(|v| v * 5.0)).collect();
    run_family::<5>(&rep, &cn, "5*cube alphabet subsets", &a5, 6..=6 + x, &pl, false, &mut bounds);
    let inj = cn.injected.load(Ordering::Relaxed);
    let hits: Vec<u64> = cn.level_hits.iter().map(|a| a.load(Ordering::Relaxed)).collect();
    if inj < 10_000 || hits[1] == 0 || hits[2] == 0 || hits[3] == 0 {
        machinery_fail(&format!("C05 vacuous: {inj} injected faults, owning-level histogram {hits:?}"));
    }
    let cov = json!({
        "evaluations": inj + cn.subjects.load(Ordering::Relaxed),
        "distinct_nontrivial": hits[1] + hits[2] + hits[3] + hits[4],
        "rule": "every fault of the catalogue (27 kinds: non-finite coordinate, nil uuid, cell with missing / extra / repeated vertex, short neighbour buffer, uuid-map entry removed / redirected, cell referencing a removed vertex, dangling / wrong incident cell, duplicate cell, neighbour slot cleared / invented / wrong cell / dangling / rotated, vertex slots swapped with and without neighbour slots, raw cell removal, isolated vertex, two vertices identified, cell vertex replaced, vertex moved onto / across the opposite facet / far away) at every location of every batch-constructed subject (all three guarantees on D=2,3), plus a strided set of fault pairs on complexes with <= 4 cells; non-trivial = the reference assigns an owning level (lowest violated level)",
        "exhaustive": true,
        "subjects": cn.subjects.load(Ordering::Relaxed),
        "faults_injected": inj,
        "owning_level_histogram": {"benign": hits[0], "L1": hits[1], "L2": hits[2], "L3": hits[3], "L3_completion": hits[4]},
        "geometric_verdicts_inside_band_skipped": cn.uncertain.load(Ordering::Relaxed),
        "bounds": bounds,
    });
    let code = rep.finish("fault_enumeration", cov, vec!["raw mutators are reached through the guarded hooks only".into(), "owning level = lowest level at which the independent reference fails; levels below it must accept, it must reject".into()], args.part.as_deref());
    std::process::exit(code);
}
