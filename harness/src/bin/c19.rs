//! C19 — no panic and guaranteed termination on any finite input; non-finite coordinates are refused.

use delaunay::core::delaunay_triangulation::{ConstructionOptions, DedupPolicy, DelaunayTriangulation, InsertionOrderStrategy};
use delaunay::core::triangulation::TopologyGuarantee;
use delaunay::geometry::kernel::{FastKernel, Kernel, RobustKernel};
use delaunay::geometry::point::Point;
use delaunay::geometry::predicates::{insphere, insphere_distance, insphere_lifted, simplex_orientation};
use delaunay::geometry::traits::coordinate::Coordinate;
use delaunay::geometry::util::circumsphere::{circumcenter, circumradius};
use delaunay::geometry::util::measures::{facet_measure, inradius, simplex_volume};
use rayon::prelude::*;
use serde_json::{Value, json};
use std::sync::atomic::{AtomicU64, Ordering};
use std::time::Instant;
use vcore::alpha::{self, mk_vertex, subsets};
use vcore::dtx::{dump_digest, guarded, silence_panics};
use vcore::explore::{Caps, Model, Stats, bfs};
use vcore::model::{self, DtI, Op, Outcome};
use vcore::report::{Finding, Report, Tier, machinery_fail, parse_args};

const CEILING_S: f64 = 60.0;

struct Cn {
    calls: AtomicU64,
    constructions: AtomicU64,
    predicate_calls: AtomicU64,
    nonfinite_offered: AtomicU64,
    slowest_ms: AtomicU64,
}

fn adversarial() -> Vec<f64> {
    vec![1e300, -1e300, 1e-300, 5e-324, f64::MAX, f64::MIN, 1e154, -0.0, f64::NAN, f64::INFINITY, f64::NEG_INFINITY]
}

fn coord_class(c: &[f64]) -> &'static str {
    if c.iter().any(|x| x.is_nan()) {
        "nan"
    } else if c.iter().any(|x| x.is_infinite()) {
        "inf"
    } else if c.iter().any(|x| x.abs() >= 1e150) {
        "huge"
    } else if c.iter().any(|x| *x != 0.0 && x.abs() <= 1e-150) {
        "tiny"
    } else {
        "ordinary"
    }
}

struct St<K: Kernel<D, Scalar = f64>, const D: usize> {
    dt: DtI<K, D>,
}

struct M<'a, K, const D: usize> {
    rep: &'a Report,
    cn: &'a Cn,
    kname: &'static str,
    label: String,
    alphabet: Vec<[f64; D]>,
    seed_pts: Vec<[f64; D]>,
    probes: Vec<[f64; D]>,
    _k: std::marker::PhantomData<K>,
}

fn opk(op: &Op) -> String {
    let s = format!("{op:?}");
    s.split(|c: char| c == ' ' || c == '(' || c == '{').next().unwrap_or("?").to_string()
}

impl<'a, K: Kernel<D, Scalar = f64> + Sync + Send, const D: usize> Model for M<'a, K, D>
where
    DtI<K, D>: Send + Sync,
{
    type State = St<K, D>;
    type Op = Op;
    fn key(&self, s: &St<K, D>) -> u128 {
        dump_digest(&s.dt)
    }
    fn ops(&self, s: &St<K, D>, hist: &[Op]) -> Vec<Op> {
        let depth = hist.len() as u32;
        let mut v = Vec::new();
        for p in 0..self.alphabet.len() {
            v.push(Op::Insert { p, uid: depth * 64 + p as u32, stats: p % 2 == 0 });
        }
        for (i, c) in self.probes.iter().enumerate() {
            v.push(Op::InsertAt { c: c.to_vec(), uid: 20_000 + depth * 64 + i as u32, stats: i % 2 == 1 });
        }
        let nv = s.dt.number_of_vertices();
        for i in 0..nv {
            v.push(Op::Remove { v: i });
        }
        v.push(Op::Remove { v: nv + 3 });
        v.push(Op::RemoveUnknown);
        if nv > 0 {
            v.push(Op::InsertDupUuid { p: 0, of: 0 });
        }
        if s.dt.number_of_cells() > 0 {
            let k1: Vec<[f64; D]> = self.probes.iter().copied().take(4).chain([std::array::from_fn(|i| 0.3 + 0.05 * i as f64)]).collect();
            v.extend(model::flip_ops(&s.dt, &k1, 9000 + depth * 16));
        } else {
            v.extend([Op::K2 { cell: 0, facet: 0 }, Op::K1Remove { v: 0 }, Op::K2Stale, Op::K1RemoveStale, Op::K2Inv { v0: 0, v1: 1 }, Op::K3 { cell: 0, a: 0, b: 1 }]);
        }
        v.extend([Op::Repair, Op::RepairAdvanced, Op::CloneSwap, Op::SerdeSwap, Op::TouchMut, Op::RepairLocalFacets { a: 0, b: 1, c: 2 }, Op::RepairLocalFacets { a: 0, b: 0, c: 99 }]);
        for i in 0..4 {
            v.push(Op::SetVP(i));
        }
        for i in 0..3 {
            v.extend([Op::SetTG(i), Op::SetRP(i), Op::SetCP(i)]);
        }
        v
    }
    fn step(&self, s: &St<K, D>, op: &Op, hist: &[Op]) -> Option<St<K, D>> {
        let mut dt = s.dt.clone();
        self.cn.calls.fetch_add(1, Ordering::Relaxed);
        let offered_nonfinite = matches!(op, Op::InsertAt { c, .. } | Op::K1Insert { c, .. } if c.iter().any(|x| !x.is_finite()));
        if offered_nonfinite {
            self.cn.nonfinite_offered.fetch_add(1, Ordering::Relaxed);
        }
        let t0 = Instant::now();
        let out = model::apply(&mut dt, op, &self.alphabet);
        let ms = t0.elapsed().as_millis() as u64;
        self.cn.slowest_ms.fetch_max(ms, Ordering::Relaxed);
        self.rep.outcome(&format!("{}:{}", opk(op), out.class()));
        let replay = || json!({"D": D, "kernel": self.kname, "family": self.label, "alphabet": self.alphabet.iter().map(|p| p.to_vec()).collect::<Vec<_>>(), "seed_points": self.seed_pts.iter().map(|p| p.to_vec()).collect::<Vec<_>>(), "history": hist, "op": op});
        let cclass = match op {
            Op::InsertAt { c, .. } | Op::K1Insert { c, .. } => coord_class(c),
            _ => "-",
        };
        if ms as f64 / 1000.0 > CEILING_S {
            self.rep.violation(Finding { signature: json!({"check": "work_ceiling", "op": opk(op), "D": D}), description: format!("{op:?} took {ms} ms on a triangulation with {} vertices", s.dt.number_of_vertices()), replay: replay() });
        }
        if let Outcome::Panic { msg } = &out {
            let m: String = vcore::report::msg_class(msg);
            self.rep.violation(Finding { signature: json!({"check": "panic", "op": opk(op), "coords": cclass, "message": m, "D": D}), description: format!("{op:?} panicked: {msg}"), replay: replay() });
            return None;
        }
        // non-finite coordinates never enter the triangulation
        if dt.vertices().any(|(_, v)| v.point().coords().iter().any(|x| !x.is_finite())) {
            self.rep.violation(Finding {
                signature: json!({"check": "non_finite_coordinate_stored", "op": opk(op), "coords": cclass, "outcome": out.class(), "bootstrap": s.dt.number_of_cells() == 0}),
                description: format!("{op:?} -> {}: a vertex with a non-finite coordinate is now part of the triangulation", out.class()),
                replay: replay(),
            });
            return None;
        }
        if hist.len() % 2 == 0 {
            self.rep.sample(json!({"D": D, "kernel": self.kname, "history": hist.iter().map(|o| format!("{o:?}")).collect::<Vec<_>>(), "op": format!("{op:?}"), "outcome": out.class()}), 8);
        }
        match out {
            Outcome::Ok { .. } => Some(St { dt }),
            _ => None,
        }
    }
}

fn probes_for<const D: usize>() -> Vec<[f64; D]> {
    let mut out: Vec<[f64; D]> = Vec::new();
    for a in adversarial() {
        // the adversarial value on one axis, ordinary values elsewhere; and on every axis
        let mut p: [f64; D] = std::array::from_fn(|i| 0.4 + 0.1 * i as f64);
        p[0] = a;
        out.push(p);
        out.push([a; D]);
    }
    out
}

#[allow(clippy::too_many_arguments)]
fn run<K, const D: usize>(rep: &Report, cn: &Cn, kname: &'static str, label: &str, alphabet: Vec<[f64; D]>, seed_pts: &[[f64; D]], depth: usize, total: &mut Stats, bounds: &mut Vec<Value>)
where
    K: Kernel<D, Scalar = f64> + Sync + Send,
    DtI<K, D>: Send + Sync,
{
    let m = M::<K, D> { rep, seed_pts: seed_pts.to_vec(), cn, kname, label: label.to_string(), alphabet, probes: probes_for::<D>(), _k: std::marker::PhantomData };
    let base: DtI<K, D> = if seed_pts.is_empty() {
        DelaunayTriangulation::with_empty_kernel(K::default())
    } else {
        let vs: Vec<_> = seed_pts.iter().enumerate().map(|(i, c)| mk_vertex::<i32, D>(*c, 0x9000 + i as u128, Some(1000 + i as i32))).collect();
        match DelaunayTriangulation::with_topology_guarantee_and_options(&K::default(), &vs, TopologyGuarantee::DEFAULT, ConstructionOptions::default()) {
            Ok(d) => d,
            Err(_) => return,
        }
    };
    let st = bfs(&m, vec![(St { dt: base }, vec![])], depth, &Caps { max_states_per_level: 500_000, wall_s: 0.0 });
    bounds.push(json!({"D": D, "kernel": kname, "family": label, "depth": st.depth_completed, "states": st.states, "transitions": st.transitions, "levels": st.level_sizes, "caps_hit": st.caps_hit}));
    total.states += st.states;
    total.transitions += st.transitions;
    total.caps_hit.extend(st.caps_hit);
}

fn both<const D: usize>(rep: &Report, cn: &Cn, label: &str, alphabet: Vec<[f64; D]>, seed: &[[f64; D]], depth: usize, total: &mut Stats, bounds: &mut Vec<Value>) {
    run::<FastKernel<f64>, D>(rep, cn, "fast", label, alphabet.clone(), seed, depth, total, bounds);
    run::<RobustKernel<f64>, D>(rep, cn, "robust", label, alphabet, seed, depth, total, bounds);
}

/// batch construction from inputs mixing ordinary and adversarial coordinates
fn constructions<K: Kernel<D, Scalar = f64>, const D: usize>(rep: &Report, cn: &Cn, kname: &str) {
    let mut alphabet: Vec<[f64; D]> = alpha::grid::<D>(2).into_iter().take(D + 2).collect();
    alphabet.extend(probes_for::<D>());
    let sets: Vec<Vec<usize>> = (D + 1..=D + 2).flat_map(|k| subsets(alphabet.len(), k).into_iter().step_by(if D >= 4 { 29 } else if D == 3 { 5 } else { 1 })).collect();
    sets.par_iter().for_each(|s| {
        let pts: Vec<[f64; D]> = s.iter().map(|&i| alphabet[i]).collect();
        let vs: Vec<_> = pts.iter().enumerate().map(|(i, c)| mk_vertex::<i32, D>(*c, 1 + i as u128, Some(i as i32))).collect();
        // every option family that preprocesses the input: dedup policies (epsilon dedup quantises coordinate / tolerance)
        // and the orderings (Hilbert / Morton quantise against the bounding box)
        let opts: Vec<(&str, ConstructionOptions)> = vec![
            ("default", ConstructionOptions::default()),
            ("exact", ConstructionOptions::default().with_dedup_policy(DedupPolicy::Exact)),
            ("eps1e-10", ConstructionOptions::default().with_dedup_policy(DedupPolicy::Epsilon { tolerance: 1e-10 })),
            ("eps1e-3/morton", ConstructionOptions::default().with_dedup_policy(DedupPolicy::Epsilon { tolerance: 1e-3 }).with_insertion_order(InsertionOrderStrategy::Morton)),
            ("lexicographic", ConstructionOptions::default().with_insertion_order(InsertionOrderStrategy::Lexicographic)),
            ("input", ConstructionOptions::default().with_insertion_order(InsertionOrderStrategy::Input)),
        ];
        for (oname, opt) in opts {
        cn.constructions.fetch_add(1, Ordering::Relaxed);
        let t0 = Instant::now();
        let r = guarded(|| DelaunayTriangulation::<K, i32, (), D>::with_topology_guarantee_and_options(&K::default(), &vs, TopologyGuarantee::PLManifold, opt));
        let secs = t0.elapsed().as_secs_f64();
        let replay = || json!({"D": D, "kernel": kname, "options": oname, "points": pts.iter().map(|p| p.iter().map(|x| format!("{x:e}")).collect::<Vec<_>>()).collect::<Vec<_>>()});
        let classes: Vec<&str> = pts.iter().map(|p| coord_class(p)).collect();
        let worst = ["nan", "inf", "huge", "tiny", "ordinary"].into_iter().find(|c| classes.contains(c)).unwrap_or("ordinary");
        match r {
            Err(p) => rep.violation(Finding { signature: json!({"check": "panic", "op": "construct", "coords": worst, "message": vcore::report::msg_class(&p), "D": D}), description: format!("batch construction panicked: {p}"), replay: replay() }),
            Ok(Ok(dt)) => {
                rep.outcome("construct:Ok");
                if dt.vertices().any(|(_, v)| v.point().coords().iter().any(|x| !x.is_finite())) {
                    rep.violation(Finding { signature: json!({"check": "non_finite_coordinate_stored", "op": "construct", "coords": worst}), description: "batch construction returned Ok with a non-finite coordinate".into(), replay: replay() });
                }
            }
            Ok(Err(_)) => rep.outcome("construct:Err"),
        }
        if secs > CEILING_S {
            rep.violation(Finding { signature: json!({"check": "work_ceiling", "op": "construct", "D": D}), description: format!("batch construction of {} points took {secs:.1}s", pts.len()), replay: replay() });
        }
        }
    });
}

/// predicates and measures on tuples with adversarial coordinates: any return value, but no panic
fn predicates<const D: usize>(rep: &Report, cn: &Cn) {
    let mut alphabet: Vec<[f64; D]> = alpha::grid::<D>(2).into_iter().take(D + 1).collect();
    alphabet.extend(probes_for::<D>().into_iter().filter(|p| p.iter().all(|x| x.is_finite())));
    let sets: Vec<Vec<usize>> = subsets(alphabet.len(), D + 2).into_iter().step_by(if D >= 4 { 101 } else if D == 3 { 11 } else { 1 }).collect();
    sets.par_iter().for_each(|s| {
        let pts: Vec<Point<f64, D>> = s[..D + 1].iter().map(|&i| Point::new(alphabet[i])).collect();
        let q = Point::new(alphabet[s[D + 1]]);
        cn.predicate_calls.fetch_add(11, Ordering::Relaxed);
        let r = guarded(|| {
            let _ = simplex_orientation(&pts);
            let _ = insphere(&pts, q);
            let _ = insphere_lifted(&pts, q);
            let _ = insphere_distance(&pts, q);
            let _ = Kernel::<D>::orientation(&RobustKernel::<f64>::new(), &pts);
            let _ = Kernel::<D>::in_sphere(&RobustKernel::<f64>::new(), &pts, &q);
            let _ = simplex_volume(&pts);
            let _ = circumcenter(&pts);
            let _ = circumradius(&pts);
            let _ = inradius(&pts);
            let _ = facet_measure(&pts[..D]);
        });
        if let Err(p) = r {
            rep.violation(Finding { signature: json!({"check": "panic", "op": "predicates/measures", "message": vcore::report::msg_class(&p), "D": D}), description: format!("a predicate or measure panicked on finite input: {p}"), replay: json!({"D": D, "simplex": s[..D + 1].iter().map(|&i| alphabet[i].iter().map(|x| format!("{x:e}")).collect::<Vec<_>>()).collect::<Vec<_>>(), "query": alphabet[s[D + 1]].iter().map(|x| format!("{x:e}")).collect::<Vec<_>>()}) });
        }
    });
}

/// Calls whose budget-bounded searches only run long on unusual inputs: periodic (image-point) builds on thin strips,
/// where no closed quotient exists and the exact selection search has to run into its node budget. Executed in a child
/// process so that the parent can enforce the ceiling on a call that does not return.
const STRIPS: [([f64; 2], usize, (f64, f64)); 5] = [
    ([1.0, 0.03], 30, (0.381_966_0, 0.145_898_0)), // 70 candidate cells for 60 places: the exact search runs into its node budget
    ([1.0, 0.05], 24, (0.381_966_0, 0.145_898_0)),
    ([0.03, 1.0], 30, (0.123_105_6, 0.916_079_7)),
    ([1.0, 0.1], 16, (0.618_033_988_749_895, 0.754_877_666_246_693)),
    ([1.0, 0.03], 30, (0.618_033_988_749_895, 0.754_877_666_246_693)),
];

fn strip_points(domain: [f64; 2], n: usize, (ma, mb): (f64, f64)) -> Vec<[f64; 2]> {
    // low-discrepancy sequence inside the fundamental domain (deterministic, no ties)
    (1..=n).map(|i| { let a = (i as f64 * ma).fract(); let b = (i as f64 * mb).fract(); [a * domain[0], b * domain[1]] }).collect()
}

fn child_periodic(which: usize) {
    let (domain, n, mult) = STRIPS[which];
    let verts: Vec<_> = strip_points(domain, n, mult).iter().enumerate().map(|(i, c)| mk_vertex::<i32, 2>(*c, 1 + i as u128, Some(i as i32))).collect();
    let t0 = Instant::now();
    let r = guarded(|| delaunay::core::builder::DelaunayTriangulationBuilder::from_vertices(&verts).toroidal_periodic(domain).build_with_kernel::<FastKernel<f64>, ()>(&FastKernel::new()));
    let class = match &r {
        Ok(Ok(_)) => "Ok",
        Ok(Err(_)) => "Err",
        Err(_) => "panic",
    };
    println!("periodic_strip {which} {class} {:.3}", t0.elapsed().as_secs_f64());
    if std::env::var("C19_DEBUG").is_ok() {
        if let Ok(Err(e)) = &r {
            eprintln!("{e}");
        }
    }
}

const CHILD_CEILING_S: u64 = 60;

fn watchdog_periodic(rep: &Report, cn: &Cn) {
    for which in 0..STRIPS.len() {
        let (domain, n, mult) = STRIPS[which];
        cn.constructions.fetch_add(1, Ordering::Relaxed);
        let mut child = match std::process::Command::new(std::env::current_exe().unwrap()).arg("--child-periodic").arg(which.to_string()).stdout(std::process::Stdio::piped()).spawn() {
            Ok(c) => c,
            Err(e) => machinery_fail(&format!("cannot spawn the watchdog child: {e}")),
        };
        let t0 = Instant::now();
        let status = loop {
            match child.try_wait() {
                Ok(Some(st)) => break Some(st),
                Ok(None) if t0.elapsed().as_secs() >= CHILD_CEILING_S => break None,
                Ok(None) => std::thread::sleep(std::time::Duration::from_millis(50)),
                Err(e) => machinery_fail(&format!("watchdog wait failed: {e}")),
            }
        };
        let replay = json!({"op": "toroidal_periodic build", "domain": domain.to_vec(), "points": strip_points(domain, n, mult).iter().map(|p| p.to_vec()).collect::<Vec<_>>()});
        match status {
            None => {
                let _ = child.kill();
                let _ = child.wait();
                rep.violation(Finding { signature: json!({"check": "did_not_return", "op": "periodic_build", "strip": which}), description: format!("periodic build of {n} points on the thin domain {domain:?} did not return within {CHILD_CEILING_S} s"), replay });
            }
            Some(st) => {
                let mut out = String::new();
                if let Some(mut so) = child.stdout.take() {
                    use std::io::Read;
                    let _ = so.read_to_string(&mut out);
                }
                if !st.success() || out.contains("panic") {
                    rep.violation(Finding { signature: json!({"check": "panic", "op": "periodic_build", "strip": which}), description: format!("periodic build on the thin domain {domain:?} panicked or crashed: {out}"), replay });
                } else {
                    rep.outcome(&format!("periodic_strip:{}", out.split_whitespace().nth(2).unwrap_or("?")));
                    let ms = (t0.elapsed().as_secs_f64() * 1000.0) as u64;
                    cn.slowest_ms.fetch_max(ms, Ordering::Relaxed);
                }
            }
        }
    }
}

fn main() {
    let args = parse_args();
    if let Some(p) = &args.replay {
        std::process::exit(vcore::replay::generic(p));
    }
    silence_panics();
    if let Some(i) = args.extra.iter().position(|a| a == "--child-periodic") {
        child_periodic(args.extra.get(i + 1).and_then(|s| s.parse().ok()).unwrap_or(0));
        return;
    }
    let rep = Report::new("C19", &args);
    let thorough = args.tier == Tier::Thorough;
    let x = usize::from(thorough);
    let cn = Cn { calls: AtomicU64::new(0), constructions: AtomicU64::new(0), predicate_calls: AtomicU64::new(0), nonfinite_offered: AtomicU64::new(0), slowest_ms: AtomicU64::new(0) };
    let mut total = Stats::default();
    let mut bounds = Vec::new();
    let g3 = alpha::grid::<2>(3);
    both::<2>(&rep, &cn, "from empty", g3.clone(), &[], 3 + x, &mut total, &mut bounds);
    both::<2>(&rep, &cn, "from constructed seed", g3.clone(), &[[0.0, 0.0], [2.0, 0.0], [0.0, 2.0], [2.0, 2.0], [1.0, 1.0]], 1 + x, &mut total, &mut bounds);
    let mut c3 = alpha::grid::<3>(2);
    c3.push([0.5; 3]);
    both::<3>(&rep, &cn, "from empty", c3.clone(), &[], 4, &mut total, &mut bounds);
    both::<3>(&rep, &cn, "from constructed seed", c3.clone(), &[[0.0, 0.0, 0.0], [1.0, 0.0, 0.0], [0.0, 1.0, 0.0], [0.0, 0.0, 1.0], [1.0, 1.0, 1.0]], 1 + x, &mut total, &mut bounds);
    let a4: Vec<[f64; 4]> = alpha::cube_alphabet::<4>().into_iter().take(7).collect();
    let s4: Vec<[f64; 4]> = a4.iter().take(6).copied().collect();
    both::<4>(&rep, &cn, "from constructed seed", a4.clone(), &s4, 1, &mut total, &mut bounds);
    both::<4>(&rep, &cn, "from empty (bootstrap)", a4.iter().take(3).copied().collect(), &[], 2, &mut total, &mut bounds);
    let a5: Vec<[f64; 5]> = alpha::cube_alphabet::<5>().into_iter().take(8).collect();
    let s5: Vec<[f64; 5]> = a5.iter().take(7).copied().collect();
    both::<5>(&rep, &cn, "from constructed seed", a5, &s5, 1, &mut total, &mut bounds);
    watchdog_periodic(&rep, &cn);
    constructions::<FastKernel<f64>, 2>(&rep, &cn, "fast");
    constructions::<RobustKernel<f64>, 2>(&rep, &cn, "robust");
    constructions::<FastKernel<f64>, 3>(&rep, &cn, "fast");
    constructions::<RobustKernel<f64>, 4>(&rep, &cn, "robust");
    constructions::<FastKernel<f64>, 5>(&rep, &cn, "fast");
    predicates::<2>(&rep, &cn);
    predicates::<3>(&rep, &cn);
    predicates::<4>(&rep, &cn);
    predicates::<5>(&rep, &cn);
    let calls = cn.calls.load(Ordering::Relaxed);
    if calls < 10_000 || cn.nonfinite_offered.load(Ordering::Relaxed) < 100 {
        machinery_fail(&format!("C19 vacuous: {calls} calls"));
    }
    let cov = json!({
        "states": total.states,
        "transitions": total.transitions,
        "traces_validated_against_impl": total.transitions,
        "api_calls_under_catch_unwind": calls,
        "non_finite_coordinates_offered": cn.nonfinite_offered.load(Ordering::Relaxed),
        "adversarial_constructions": cn.constructions.load(Ordering::Relaxed),
        "predicate_and_measure_calls": cn.predicate_calls.load(Ordering::Relaxed),
        "slowest_call_ms": cn.slowest_ms.load(Ordering::Relaxed),
        "per_call_ceiling_s": CEILING_S,
        "exhaustive": total.caps_hit.is_empty(),
        "rule": "BFS over the full operation alphabet (inserts of the grid alphabet and of adversarial coordinates {+-1e300, 1e-300, 5e-324, f64::MAX/MIN, 1e154, -0.0, NaN, +-inf} on one axis and on all axes, both entry points; removal of every vertex, of an out-of-range ordinal and of an unknown vertex; duplicate UUID; every flip handle incl. stale / out-of-range ones and k=1 insertion at adversarial points; both repairs; all policy setters; clone / serde swap; mutable view) from empty and constructed seeds, every call under catch_unwind with a 60 s ceiling; plus batch constructions and predicate / measure calls on tuples mixing ordinary and adversarial coordinates; judged: returns, no panic, no non-finite coordinate ever stored",
        "bounds": bounds,
    });
    let code = rep.finish("model_checking", cov, vec!["the per-call ceiling (60 s) is four orders of magnitude above normal for these sizes, so machine load cannot cause an alarm".into(), "release and relassert profiles are both run (debug_assert! panics count)".into()], args.part.as_deref());
    std::process::exit(code);
}
