//! Evidence files, violation / known-finding bookkeeping, CLI plumbing shared by all checks.

use serde_json::{Value, json};
use std::collections::BTreeMap;
use std::path::PathBuf;
use std::sync::Mutex;
use std::time::Instant;

pub const VERIF_ROOT: &str = "/verif";

#[derive(Clone, Copy, Debug, PartialEq, Eq)]
pub enum Tier {
    Quick,
    Thorough,
}

pub struct Args {
    pub tier: Tier,
    pub seed: u64,
    /// label of the cargo profile this binary was built with ("release" / "relassert")
    pub profile: String,
    /// optional part filter: run only this sub-run and write a partial evidence file
    pub part: Option<String>,
    pub replay: Option<String>,
    pub extra: Vec<String>,
}

pub fn parse_args() -> Args {
    let mut tier = match std::env::var("VERIF_TIER").ok().as_deref() {
        Some("thorough") => Tier::Thorough,
        _ => Tier::Quick,
    };
    let seed = std::env::var("VERIF_SEED").ok().and_then(|s| s.parse().ok()).unwrap_or(0);
    let mut profile = if cfg!(debug_assertions) { "relassert".to_string() } else { "release".to_string() };
    let mut part = None;
    let mut replay = None;
    let mut extra = Vec::new();
    let mut it = std::env::args().skip(1);
    while let Some(a) = it.next() {
        match a.as_str() {
            "--tier" => {
                tier = match it.next().as_deref() {
                    Some("thorough") => Tier::Thorough,
                    _ => Tier::Quick,
                }
            }
            "--profile-label" => profile = it.next().unwrap_or(profile),
            "--part" => part = it.next(),
            "--replay" => replay = it.next(),
            _ => extra.push(a),
        }
    }
    // The library latches several DELAUNAY_* environment variables; own that nondeterminism.
    let keys: Vec<String> = std::env::vars().map(|(k, _)| k).filter(|k| k.starts_with("DELAUNAY_")).collect();
    for k in keys {
        // SAFETY: single-threaded at this point (called first thing in main)
        unsafe { std::env::remove_var(k) };
    }
    Args { tier, seed, profile, part, replay, extra }
}

#[derive(Clone, Debug)]
pub struct Finding {
    pub signature: Value,
    pub description: String,
    pub replay: Value,
}

struct Inner {
    violations: Vec<(Finding, PathBuf)>,
    /// id -> (description, matches, most recent matching finding)
    known_hits: BTreeMap<String, (String, u64, Option<Finding>)>,
    samples: Vec<Value>,
    outcomes: BTreeMap<String, u64>,
    seen_sigs: BTreeMap<String, u64>,
}

pub struct Report {
    pub property: String,
    pub tier: Tier,
    pub seed: u64,
    pub profile: String,
    start: Instant,
    known: Vec<Value>,
    inner: Mutex<Inner>,
    pub max_violation_files: usize,
}

fn load_known(property: &str) -> Vec<Value> {
    let path = format!("{VERIF_ROOT}/known_findings.json");
    let Ok(text) = std::fs::read_to_string(&path) else { return Vec::new() };
    let v: Value = serde_json::from_str(&text).unwrap_or_else(|e| {
        eprintln!("MACHINERY: cannot parse {path}: {e}");
        std::process::exit(2)
    });
    v.as_array().cloned().unwrap_or_default().into_iter().filter(|e| e["property"] == property).collect()
}

thread_local! {
    /// set while the explorer re-executes a transition for its determinism self-check: nothing the re-execution
    /// observes may be counted twice (known-finding match counts are compared with recorded numbers)
    static QUIET: std::cell::Cell<bool> = const { std::cell::Cell::new(false) };
}

/// Run `f` with every `Report` on this thread muted (violations, outcomes and samples are dropped).
pub fn quietly<T>(f: impl FnOnce() -> T) -> T {
    QUIET.with(|q| q.set(true));
    let r = f();
    QUIET.with(|q| q.set(false));
    r
}

fn quiet() -> bool {
    QUIET.with(|q| q.get())
}

impl Report {
    pub fn new(property: &str, args: &Args) -> Self {
        Report {
            property: property.to_string(),
            tier: args.tier,
            seed: args.seed,
            profile: args.profile.clone(),
            start: Instant::now(),
            known: load_known(property),
            inner: Mutex::new(Inner { violations: Vec::new(), known_hits: BTreeMap::new(), samples: Vec::new(), outcomes: BTreeMap::new(), seen_sigs: BTreeMap::new() }),
            max_violation_files: 400,
        }
    }

    pub fn elapsed(&self) -> f64 {
        self.start.elapsed().as_secs_f64()
    }

    pub fn outcome(&self, class: &str) {
        if quiet() {
            return;
        }
        *self.inner.lock().unwrap().outcomes.entry(class.to_string()).or_default() += 1;
    }
    pub fn outcome_n(&self, class: &str, n: u64) {
        if quiet() {
            return;
        }
        *self.inner.lock().unwrap().outcomes.entry(class.to_string()).or_default() += n;
    }

    /// keep up to `cap` samples; `pick` decides deterministically from the seed which ones
    pub fn sample(&self, v: Value, cap: usize) {
        if quiet() {
            return;
        }
        let mut g = self.inner.lock().unwrap();
        if g.samples.len() < cap {
            g.samples.push(v);
        }
    }

    /// Record a violation. Returns true if it matched a known finding.
    pub fn violation(&self, f: Finding) {
        if quiet() {
            return;
        }
        let _ = self.violation_inner(f);
    }

    fn violation_inner(&self, f: Finding) -> bool {
        let sig_key = f.signature.to_string();
        // known finding? (status "known" only; "fixed" entries suppress nothing)
        for k in &self.known {
            if k["status"] == "known" && k["signature"] == f.signature {
                let id = k["id"].as_str().unwrap_or("?").to_string();
                let mut g = self.inner.lock().unwrap();
                let ent = g.known_hits.entry(id).or_insert((k["description"].as_str().unwrap_or("").to_string(), 0, None));
                ent.1 += 1;
                ent.2 = Some(f);
                return true;
            }
        }
        let mut g = self.inner.lock().unwrap();
        let count = {
            let n = g.seen_sigs.entry(sig_key.clone()).or_default();
            *n += 1;
            *n
        };
        // one replay file per distinct signature, capped
        if count > 1 || g.violations.len() >= self.max_violation_files {
            return false;
        }
        let h = crate::snap::digest(&format!("{}{}", sig_key, f.replay));
        let path = PathBuf::from(format!("{VERIF_ROOT}/replays/{}-{:016x}.json", self.property, (h >> 64) as u64));
        let doc = json!({"property": self.property, "profile": self.profile, "signature": f.signature, "description": f.description, "replay": f.replay});
        let _ = std::fs::create_dir_all(format!("{VERIF_ROOT}/replays"));
        let _ = std::fs::write(&path, serde_json::to_string_pretty(&doc).unwrap());
        g.violations.push((f, path));
        false
    }

    pub fn n_violations(&self) -> usize {
        self.inner.lock().unwrap().seen_sigs.values().map(|&n| n as usize).sum()
    }

    /// Write the evidence file, print verdict lines, return the process exit code.
    /// `coverage` must contain the level's required keys; samples/outcomes are merged in.
    pub fn finish(&self, level: &str, mut coverage: Value, assumptions: Vec<String>, part: Option<&str>) -> i32 {
        let mut g = self.inner.lock().unwrap();
        // A listed finding is a class of failing inputs; the file also records how many inputs of the class fail on the
        // unchanged tree in this tier and build profile ("max_matches"). More matches than that means that an input
        // which is not part of the listed finding fails too: a violation the file does not list.
        let count_key = format!("{}.{}", if self.tier == Tier::Quick { "quick" } else { "thorough" }, self.profile);
        let mut exceeded: Vec<(String, u64, u64, Finding)> = Vec::new();
        if part.is_none() {
            for (id, (_, n, last)) in g.known_hits.iter() {
                let listed = self.known.iter().find(|k| k["id"] == id.as_str()).and_then(|k| k["max_matches"][&count_key].as_u64());
                if let (Some(max), Some(f)) = (listed, last) {
                    if *n > max {
                        exceeded.push((id.clone(), *n, max, f.clone()));
                    }
                }
            }
        }
        for (id, n, max, f) in exceeded {
            let sig = json!({"check": "more_failing_inputs_than_listed", "known_finding": id});
            let h = crate::snap::digest(&format!("{}{}", sig, f.replay));
            let path = PathBuf::from(format!("{VERIF_ROOT}/replays/{}-{:016x}.json", self.property, (h >> 64) as u64));
            let description = format!("{n} inputs match the class of listed finding {id}, but only {max} do on the unchanged tree ({count_key}): at least {} failing input(s) are not part of the listed finding (replay: the most recent match of the class) -- {}", n - max, f.description);
            let doc = json!({"property": self.property, "profile": self.profile, "signature": sig, "description": description, "replay": f.replay});
            let _ = std::fs::create_dir_all(format!("{VERIF_ROOT}/replays"));
            let _ = std::fs::write(&path, serde_json::to_string_pretty(&doc).unwrap());
            *g.seen_sigs.entry(sig.to_string()).or_default() += n - max;
            g.violations.push((Finding { signature: sig, description, replay: f.replay }, path));
        }
        // A call that panicked delivered neither the promised result nor a typed error. The explorers count such calls
        // per outcome class ("...panic..."); any of them is a violation of the property being explored (and of C19,
        // which quantifies over the histories of all the other properties in both build profiles).
        let panics: Vec<(String, u64)> = g.outcomes.iter().filter(|(k, n)| k.to_lowercase().contains("panic") && **n > 0).map(|(k, n)| (k.clone(), *n)).collect();
        for (k, n) in panics {
            let sig = json!({"check": "panic_during_exploration", "outcome_class": k});
            if self.known.iter().any(|e| e["status"] == "known" && e["signature"] == sig) {
                continue;
            }
            let h = crate::snap::digest(&sig.to_string());
            let path = PathBuf::from(format!("{VERIF_ROOT}/replays/{}-{:016x}.json", self.property, (h >> 64) as u64));
            let description = format!("{n} call(s) of outcome class '{k}' panicked during the exploration ({} build profile)", self.profile);
            let replay = json!({"outcome_class": k, "profile": self.profile, "note": "panics are counted per outcome class; re-run this check in this profile with RUST_BACKTRACE=1 and without silence_panics to see the first one"});
            let doc = json!({"property": self.property, "profile": self.profile, "signature": sig, "description": description, "replay": replay});
            let _ = std::fs::create_dir_all(format!("{VERIF_ROOT}/replays"));
            let _ = std::fs::write(&path, serde_json::to_string_pretty(&doc).unwrap());
            if !g.seen_sigs.contains_key(&sig.to_string()) {
                *g.seen_sigs.entry(sig.to_string()).or_default() += n;
                g.violations.push((Finding { signature: sig, description, replay }, path));
            }
        }
        let total_viol: u64 = g.seen_sigs.values().sum();
        if coverage.get("samples").is_none() {
            coverage["samples"] = Value::Array(g.samples.clone());
        }
        coverage["outcomes"] = json!(g.outcomes);
        coverage["known_findings_matched"] = json!(g.known_hits.iter().map(|(k, v)| (k.clone(), v.1)).collect::<BTreeMap<_, _>>());
        coverage["build_profile"] = json!(self.profile);
        let ev = json!({
            "property_id": self.property,
            "tier": if self.tier == Tier::Quick { "quick" } else { "thorough" },
            "seed": self.seed,
            "level": level,
            "coverage": coverage,
            "assumptions": assumptions,
            "wall_s": self.elapsed(),
            "violations": total_viol,
        });
        let _ = std::fs::create_dir_all(format!("{VERIF_ROOT}/evidence"));
        let name = match part {
            Some(p) => format!("{VERIF_ROOT}/evidence/parts/{}.{}.{}.json", self.property, self.profile, p),
            None => format!("{VERIF_ROOT}/evidence/parts/{}.{}.json", self.property, self.profile),
        };
        let _ = std::fs::create_dir_all(format!("{VERIF_ROOT}/evidence/parts"));
        std::fs::write(&name, serde_json::to_string_pretty(&ev).unwrap()).expect("write evidence part");
        for (id, (desc, n, _)) in &g.known_hits {
            let sig = self.known.iter().find(|k| k["id"] == id.as_str()).map(|k| k["signature"].to_string()).unwrap_or_default();
            let short: String = desc.chars().take(200).collect();
            println!("KNOWN-FINDING: property={} [{}] {} -- {} (matched {} times)", self.property, id, sig, short, n);
        }
        for (f, path) in &g.violations {
            println!("VIOLATION property={} replay={}", self.property, path.display());
            println!("  what: {}", f.description);
        }
        println!(
            "[{} {} {}] wall={:.1}s violations={} known_matched={} outcomes={}",
            self.property,
            if self.tier == Tier::Quick { "quick" } else { "thorough" },
            self.profile,
            self.elapsed(),
            total_viol,
            g.known_hits.len(),
            serde_json::to_string(&g.outcomes).unwrap()
        );
        if total_viol > 0 { 1 } else { 0 }
    }
}

/// Machinery failure: never a verdict.
pub fn machinery_fail(msg: &str) -> ! {
    eprintln!("MACHINERY: {msg}");
    std::process::exit(2)
}

/// Stable class of a diagnostic message: bracketed lists, UUIDs, hex keys and numbers are replaced by '#'.
pub fn msg_class(s: &str) -> String {
    let mut out = String::new();
    let mut depth = 0usize;
    let mut token = String::new();
    let flush = |token: &mut String, out: &mut String| {
        if token.is_empty() {
            return;
        }
        let uuidish = token.len() >= 8 && token.chars().all(|c| c.is_ascii_hexdigit() || c == '-');
        let numeric = token.chars().any(|c| c.is_ascii_digit());
        if uuidish || numeric {
            if !out.ends_with('#') {
                out.push('#');
            }
        } else {
            out.push_str(token);
        }
        token.clear();
    };
    for ch in s.chars() {
        match ch {
            '[' | '(' | '{' => {
                flush(&mut token, &mut out);
                depth += 1;
            }
            ']' | ')' | '}' => {
                depth = depth.saturating_sub(1);
            }
            _ if depth > 0 => {}
            c if c.is_alphanumeric() || c == '-' || c == '_' || c == '.' => token.push(c),
            c => {
                flush(&mut token, &mut out);
                out.push(c);
            }
        }
    }
    flush(&mut token, &mut out);
    out.split_whitespace().collect::<Vec<_>>().join(" ").chars().take(70).collect()
}
