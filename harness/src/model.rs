//! Operation alphabet over a real `DelaunayTriangulation` (DESIGN section 3): every transition of every
//! history explorer is one of these ops applied to the real object. Handles are ordinals into the
//! iteration order of the state, so a history is replayable from its textual form.

use crate::alpha::mk_vertex;
use crate::dtx::{guarded, variant_name};
use delaunay::core::delaunay_triangulation::{DelaunayCheckPolicy, DelaunayRepairHeuristicConfig, DelaunayRepairPolicy, DelaunayTriangulation};
use delaunay::core::operations::InsertionOutcome;
use delaunay::core::triangulation::{TopologyGuarantee, ValidationPolicy};
use delaunay::core::triangulation_data_structure::{CellKey, Tds, VertexKey};
use delaunay::geometry::kernel::Kernel;
use delaunay::geometry::traits::coordinate::Coordinate;
use delaunay::triangulation::flips::{BistellarFlips, EdgeKey, FacetHandle, RidgeHandle, TriangleHandle};
use serde::{Deserialize, Serialize};
use std::num::NonZeroUsize;

pub type DtI<K, const D: usize> = DelaunayTriangulation<K, i32, (), D>;

#[derive(Clone, Debug, PartialEq, Serialize, Deserialize)]
pub enum Op {
    /// insert alphabet point `p` with a fresh UUID derived from `uid`
    Insert { p: usize, uid: u32, stats: bool },
    /// insert at explicit coordinates (probes)
    InsertAt { c: Vec<f64>, uid: u32, stats: bool },
    /// insert alphabet point `p` re-using the UUID of the `of`-th live vertex
    InsertDupUuid { p: usize, of: usize },
    Remove { v: usize },
    RemoveUnknown,
    K1Insert { cell: usize, c: Vec<f64>, uid: u32 },
    K1Remove { v: usize },
    K2 { cell: usize, facet: u8 },
    K3 { cell: usize, a: u8, b: u8 },
    K2Inv { v0: usize, v1: usize },
    K3Inv { v0: usize, v1: usize, v2: usize },
    /// handles that never were valid in this triangulation
    K2Stale,
    K1RemoveStale,
    K1InsertStale { c: Vec<f64>, uid: u32 },
    /// flip_k1_insert of a vertex that carries the UUID of the `of`-th existing vertex
    K1InsertDupUuid { cell: usize, c: Vec<f64>, of: usize },
    K3Stale,
    K2InvStale,
    Repair,
    RepairAdvanced,
    SetVP(u8),
    SetTG(u8),
    SetRP(u8),
    SetCP(u8),
    CloneSwap,
    SerdeSwap,
    TouchMut,
    /// `as_triangulation_mut().repair_local_facet_issues` with a fabricated report that names the three cells as
    /// over-sharing one facet (the repair keeps the two best-shaped cells and removes the third)
    RepairLocalFacets { a: usize, b: usize, c: usize },
}

pub fn vp_of(i: u8) -> ValidationPolicy {
    [ValidationPolicy::OnSuspicion, ValidationPolicy::Never, ValidationPolicy::Always, ValidationPolicy::DebugOnly][i as usize % 4]
}
pub fn tg_of(i: u8) -> TopologyGuarantee {
    [TopologyGuarantee::PLManifold, TopologyGuarantee::Pseudomanifold, TopologyGuarantee::PLManifoldStrict][i as usize % 3]
}
pub fn rp_of(i: u8) -> DelaunayRepairPolicy {
    [DelaunayRepairPolicy::EveryInsertion, DelaunayRepairPolicy::Never, DelaunayRepairPolicy::EveryN(NonZeroUsize::new(2).unwrap())][i as usize % 3]
}
pub fn cp_of(i: u8) -> DelaunayCheckPolicy {
    [DelaunayCheckPolicy::EndOnly, DelaunayCheckPolicy::EveryN(NonZeroUsize::new(1).unwrap()), DelaunayCheckPolicy::EveryN(NonZeroUsize::new(2).unwrap())][i as usize % 3]
}

/// What a call returned, in a form comparable across runs (no keys of other objects, no random UUIDs).
#[derive(Clone, Debug, PartialEq)]
pub enum Outcome {
    /// Ok with a short class string and (for insertions) the returned key
    Ok { class: String, key: Option<VertexKey>, detail: String },
    /// insert_with_statistics returned Ok((Skipped{error}, _))
    Skipped { class: String, dbg: String },
    Err { class: String, dbg: String },
    Panic { msg: String },
}

impl Outcome {
    pub fn class(&self) -> String {
        match self {
            Outcome::Ok { class, .. } => format!("Ok({class})"),
            Outcome::Skipped { class, .. } => format!("Skipped({class})"),
            Outcome::Err { class, .. } => format!("Err({class})"),
            Outcome::Panic { .. } => "panic".to_string(),
        }
    }
    pub fn is_failure(&self) -> bool {
        matches!(self, Outcome::Skipped { .. } | Outcome::Err { .. })
    }
}

fn dbg_of<E: std::fmt::Debug>(e: &E) -> String {
    format!("{e:?}").chars().take(300).collect()
}

pub fn nth_vertex<K: Kernel<D, Scalar = f64>, const D: usize>(dt: &DtI<K, D>, i: usize) -> Option<VertexKey> {
    dt.vertices().nth(i).map(|(k, _)| k)
}
pub fn nth_cell<K: Kernel<D, Scalar = f64>, const D: usize>(dt: &DtI<K, D>, i: usize) -> Option<CellKey> {
    dt.cells().nth(i).map(|(k, _)| k)
}

/// A key that is structurally valid but never existed in `dt`: taken from a throw-away slot map.
pub fn foreign_vertex_key() -> VertexKey {
    let mut sm: slotmap::SlotMap<VertexKey, ()> = slotmap::SlotMap::with_key();
    for _ in 0..1000 {
        sm.insert(());
    }
    sm.insert(())
}
pub fn foreign_cell_key() -> CellKey {
    let mut sm: slotmap::SlotMap<CellKey, ()> = slotmap::SlotMap::with_key();
    for _ in 0..1000 {
        sm.insert(());
    }
    sm.insert(())
}

fn ins_outcome(r: Result<VertexKey, delaunay::core::algorithms::incremental_insertion::InsertionError>) -> Outcome {
    match r {
        Ok(k) => Outcome::Ok { class: "Inserted".into(), key: Some(k), detail: String::new() },
        Err(e) => Outcome::Err { class: variant_name(&e), dbg: dbg_of(&e) },
    }
}

/// Apply `op` to `dt` (the real call, under catch_unwind). `alphabet` resolves point indices.
pub fn apply<K, const D: usize>(dt: &mut DtI<K, D>, op: &Op, alphabet: &[[f64; D]]) -> Outcome
where
    K: Kernel<D, Scalar = f64>,
{
    let r = guarded(|| apply_inner(dt, op, alphabet));
    match r {
        Ok(o) => o,
        Err(msg) => Outcome::Panic { msg },
    }
}

fn arr<const D: usize>(c: &[f64]) -> [f64; D] {
    std::array::from_fn(|i| c[i])
}

fn flip_outcome<const D: usize>(r: Result<delaunay::triangulation::flips::FlipInfo<D>, delaunay::triangulation::flips::FlipError>) -> Outcome {
    match r {
        Ok(info) => Outcome::Ok { class: format!("Flip{:?}{:?}", info.kind, info.direction), key: None, detail: format!("removed={} new={}", info.removed_cells.len(), info.new_cells.len()) },
        Err(e) => Outcome::Err { class: format!("Flip::{}", variant_name(&e)), dbg: dbg_of(&e) },
    }
}

fn apply_inner<K, const D: usize>(dt: &mut DtI<K, D>, op: &Op, alphabet: &[[f64; D]]) -> Outcome
where
    K: Kernel<D, Scalar = f64>,
{
    match op {
        Op::Insert { p, uid, stats } => insert_at(dt, alphabet[*p], *uid, *stats, *p as i32),
        Op::InsertAt { c, uid, stats } => insert_at(dt, arr::<D>(c), *uid, *stats, -1),
        Op::InsertDupUuid { p, of } => {
            let Some(uuid) = dt.vertices().nth(*of).map(|(_, v)| v.uuid()) else { return Outcome::Err { class: "NoSuchVertex".into(), dbg: String::new() } };
            let v = delaunay::core::vertex::Vertex::new_with_uuid(delaunay::geometry::point::Point::new(alphabet[*p]), uuid, Some(*p as i32));
            ins_outcome(dt.insert(v))
        }
        Op::Remove { v } => {
            let Some(vx) = dt.vertices().nth(*v).map(|(_, x)| *x) else { return Outcome::Err { class: "NoSuchVertex".into(), dbg: String::new() } };
            match dt.remove_vertex(&vx) {
                Ok(n) => Outcome::Ok { class: "Removed".into(), key: None, detail: format!("{n}") },
                Err(e) => Outcome::Err { class: variant_name(&e), dbg: dbg_of(&e) },
            }
        }
        Op::RemoveUnknown => {
            let vx = mk_vertex::<i32, D>([0.123; D], 0xdead_beef, Some(-7));
            match dt.remove_vertex(&vx) {
                Ok(n) => Outcome::Ok { class: "Removed".into(), key: None, detail: format!("{n}") },
                Err(e) => Outcome::Err { class: variant_name(&e), dbg: dbg_of(&e) },
            }
        }
        Op::K1Insert { cell, c, uid } => {
            let Some(ck) = nth_cell(dt, *cell) else { return Outcome::Err { class: "NoSuchCell".into(), dbg: String::new() } };
            flip_outcome(dt.flip_k1_insert(ck, mk_vertex::<i32, D>(arr::<D>(c), 0x1_0000 + *uid as u128, Some(-2))))
        }
        Op::K1Remove { v } => {
            let Some(vk) = nth_vertex(dt, *v) else { return Outcome::Err { class: "NoSuchVertex".into(), dbg: String::new() } };
            flip_outcome(dt.flip_k1_remove(vk))
        }
        Op::K1RemoveStale => flip_outcome(dt.flip_k1_remove(foreign_vertex_key())),
        Op::K2 { cell, facet } => {
            let Some(ck) = nth_cell(dt, *cell) else { return Outcome::Err { class: "NoSuchCell".into(), dbg: String::new() } };
            flip_outcome(dt.flip_k2(FacetHandle::new(ck, *facet)))
        }
        Op::K2Stale => flip_outcome(dt.flip_k2(FacetHandle::new(foreign_cell_key(), 0))),
        Op::K1InsertStale { c, uid } => flip_outcome(dt.flip_k1_insert(foreign_cell_key(), mk_vertex::<i32, D>(arr::<D>(c), 0x1_0000 + *uid as u128, Some(-2)))),
        Op::K1InsertDupUuid { cell, c, of } => {
            let Some(ck) = nth_cell(dt, *cell) else { return Outcome::Err { class: "NoSuchCell".into(), dbg: String::new() } };
            let Some(uuid) = dt.vertices().nth(*of).map(|(_, v)| v.uuid()) else { return Outcome::Err { class: "NoSuchVertex".into(), dbg: String::new() } };
            let v = delaunay::core::vertex::Vertex::new_with_uuid(delaunay::geometry::point::Point::new(arr::<D>(c)), uuid, Some(-2));
            flip_outcome(dt.flip_k1_insert(ck, v))
        }
        Op::K3Stale => flip_outcome(dt.flip_k3(RidgeHandle::new(foreign_cell_key(), 0, 1))),
        Op::K2InvStale => {
            let Some(a) = nth_vertex(dt, 0) else { return Outcome::Err { class: "NoSuchVertex".into(), dbg: String::new() } };
            flip_outcome(dt.flip_k2_inverse_from_edge(EdgeKey::new(a, foreign_vertex_key())))
        }
        Op::K3 { cell, a, b } => {
            let Some(ck) = nth_cell(dt, *cell) else { return Outcome::Err { class: "NoSuchCell".into(), dbg: String::new() } };
            flip_outcome(dt.flip_k3(RidgeHandle::new(ck, *a, *b)))
        }
        Op::K2Inv { v0, v1 } => {
            let (Some(a), Some(b)) = (nth_vertex(dt, *v0), nth_vertex(dt, *v1)) else { return Outcome::Err { class: "NoSuchVertex".into(), dbg: String::new() } };
            flip_outcome(dt.flip_k2_inverse_from_edge(EdgeKey::new(a, b)))
        }
        Op::K3Inv { v0, v1, v2 } => {
            let (Some(a), Some(b), Some(c)) = (nth_vertex(dt, *v0), nth_vertex(dt, *v1), nth_vertex(dt, *v2)) else { return Outcome::Err { class: "NoSuchVertex".into(), dbg: String::new() } };
            flip_outcome(dt.flip_k3_inverse_from_triangle(TriangleHandle::new(a, b, c)))
        }
        Op::Repair => match dt.repair_delaunay_with_flips() {
            Ok(s) => Outcome::Ok { class: "Repaired".into(), key: None, detail: format!("flips={}", s.flips_performed) },
            Err(e) => Outcome::Err { class: format!("Repair::{}", variant_name(&e)), dbg: dbg_of(&e) },
        },
        Op::RepairAdvanced => match dt.repair_delaunay_with_flips_advanced(DelaunayRepairHeuristicConfig { shuffle_seed: Some(11), perturbation_seed: Some(13) }) {
            Ok(o) => Outcome::Ok { class: if o.used_heuristic() { "RepairedHeuristic".into() } else { "Repaired".into() }, key: None, detail: format!("flips={}", o.stats.flips_performed) },
            Err(e) => Outcome::Err { class: format!("Repair::{}", variant_name(&e)), dbg: dbg_of(&e) },
        },
        Op::SetVP(i) => {
            dt.set_validation_policy(vp_of(*i));
            Outcome::Ok { class: "Set".into(), key: None, detail: String::new() }
        }
        Op::SetTG(i) => {
            dt.set_topology_guarantee(tg_of(*i));
            Outcome::Ok { class: "Set".into(), key: None, detail: String::new() }
        }
        Op::SetRP(i) => {
            dt.set_delaunay_repair_policy(rp_of(*i));
            Outcome::Ok { class: "Set".into(), key: None, detail: String::new() }
        }
        Op::SetCP(i) => {
            dt.set_delaunay_check_policy(cp_of(*i));
            Outcome::Ok { class: "Set".into(), key: None, detail: String::new() }
        }
        Op::CloneSwap => {
            let c = dt.clone();
            *dt = c;
            Outcome::Ok { class: "Swapped".into(), key: None, detail: String::new() }
        }
        Op::SerdeSwap => {
            let json = match serde_json::to_string(dt.tds()) {
                Ok(j) => j,
                Err(e) => return Outcome::Err { class: format!("Serialize::{e}"), dbg: String::new() },
            };
            let tds: Tds<f64, i32, (), D> = match serde_json::from_str(&json) {
                Ok(t) => t,
                Err(e) => return Outcome::Err { class: format!("Deserialize::{}", e.to_string().chars().take(40).collect::<String>()), dbg: String::new() },
            };
            let (vp, tg, rp, cp) = (dt.validation_policy(), dt.topology_guarantee(), dt.delaunay_repair_policy(), dt.delaunay_check_policy());
            let mut n = DtI::<K, D>::from_tds_with_topology_guarantee(tds, K::default(), tg);
            n.set_validation_policy(vp);
            n.set_delaunay_repair_policy(rp);
            n.set_delaunay_check_policy(cp);
            *dt = n;
            Outcome::Ok { class: "Swapped".into(), key: None, detail: String::new() }
        }
        Op::TouchMut => {
            let _ = dt.as_triangulation_mut();
            Outcome::Ok { class: "Touched".into(), key: None, detail: String::new() }
        }
        Op::RepairLocalFacets { a, b, c } => {
            let (Some(ka), Some(kb), Some(kc)) = (nth_cell(dt, *a), nth_cell(dt, *b), nth_cell(dt, *c)) else { return Outcome::Err { class: "NoSuchCell".into(), dbg: String::new() } };
            let mut issues = delaunay::core::collections::FacetIssuesMap::default();
            let mut buf = delaunay::core::collections::SmallBuffer::new();
            for k in [ka, kb, kc] {
                buf.push((k, 0u8));
            }
            issues.insert(0x5eed_u64, buf);
            match dt.as_triangulation_mut().repair_local_facet_issues(&issues) {
                Ok(n) => Outcome::Ok { class: "LocalFacetRepair".into(), key: None, detail: format!("{n}") },
                Err(e) => Outcome::Err { class: variant_name(&e), dbg: dbg_of(&e) },
            }
        }
    }
}

fn insert_at<K, const D: usize>(dt: &mut DtI<K, D>, c: [f64; D], uid: u32, stats: bool, data: i32) -> Outcome
where
    K: Kernel<D, Scalar = f64>,
{
    // Vertex::new_with_uuid performs no validation: raw coordinates (incl. non-finite ones) reach `insert`.
    let v = mk_vertex::<i32, D>(c, 0x100 + uid as u128, Some(data));
    if stats {
        match dt.insert_with_statistics(v) {
            Ok((InsertionOutcome::Inserted { vertex_key, .. }, st)) => Outcome::Ok { class: "Inserted".into(), key: Some(vertex_key), detail: format!("attempts={}", st.attempts) },
            Ok((InsertionOutcome::Skipped { error }, _)) => Outcome::Skipped { class: variant_name(&error), dbg: dbg_of(&error) },
            Err(e) => Outcome::Err { class: variant_name(&e), dbg: dbg_of(&e) },
        }
    } else {
        ins_outcome(dt.insert(v))
    }
}

pub fn uuid_for_uid(uid: u32) -> uuid::Uuid {
    crate::snap::uuid_v4_from(0x100 + uid as u128)
}

/// All flip handles that can be formed in `dt` (every (cell, facet index) incl. out-of-range indices, every
/// ridge pair incl. equal indices, every vertex pair / triple, every vertex), plus stale representatives.
pub fn flip_ops<K, const D: usize>(dt: &DtI<K, D>, k1_points: &[[f64; D]], uid_base: u32) -> Vec<Op>
where
    K: Kernel<D, Scalar = f64>,
{
    let nc = dt.number_of_cells();
    let nv = dt.number_of_vertices();
    let mut ops = Vec::new();
    for c in 0..nc {
        for f in (0..=(D as u8 + 1)).chain([255u8]) {
            ops.push(Op::K2 { cell: c, facet: f });
        }
        if D >= 3 {
            for a in 0..=(D as u8) {
                for b in a..=(D as u8) {
                    ops.push(Op::K3 { cell: c, a, b });
                }
            }
            ops.push(Op::K3 { cell: c, a: 0, b: D as u8 + 1 });
        }
        for (i, p) in k1_points.iter().enumerate() {
            ops.push(Op::K1Insert { cell: c, c: p.to_vec(), uid: uid_base + i as u32 });
        }
    }
    for v in 0..nv {
        ops.push(Op::K1Remove { v });
        for w in v + 1..nv {
            ops.push(Op::K2Inv { v0: v, v1: w });
            if D >= 4 {
                for x in w + 1..nv {
                    ops.push(Op::K3Inv { v0: v, v1: w, v2: x });
                }
            }
        }
    }
    if D < 4 && nv >= 3 {
        ops.push(Op::K3Inv { v0: 0, v1: 1, v2: 2 });
    }
    ops.push(Op::K2Stale);
    ops.push(Op::K1RemoveStale);
    if let Some(p) = k1_points.first() {
        ops.push(Op::K1InsertStale { c: p.to_vec(), uid: uid_base + k1_points.len() as u32 });
        // duplicate UUID of a vertex of the target cell's neighbourhood (first) and of a far one (last)
        for c in [0, nc.saturating_sub(1)] {
            for of in [0, nv.saturating_sub(1)] {
                let op = Op::K1InsertDupUuid { cell: c, c: p.to_vec(), of };
                if nc > 0 && nv > 0 && !ops.contains(&op) {
                    ops.push(op);
                }
            }
        }
    }
    ops.push(Op::K3Stale);
    ops.push(Op::K2InvStale);
    ops
}
