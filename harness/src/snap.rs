//! Neutral snapshot of a triangulation read through the public API, plus fingerprints.

use delaunay::core::traits::data_type::DataType;
use delaunay::core::triangulation_data_structure::{CellKey, Tds, VertexKey};
use slotmap::Key;
use std::collections::HashMap;
use std::hash::{Hash, Hasher};
use uuid::Uuid;

#[derive(Clone, Debug)]
pub struct VSnap<const D: usize> {
    pub key: VertexKey,
    pub uuid: Uuid,
    pub c: [f64; D],
    pub data: String,
    pub incident: Option<CellKey>,
}

#[derive(Clone, Debug)]
pub struct CSnap {
    pub key: CellKey,
    pub uuid: Uuid,
    /// vertex keys in slot order
    pub v: Vec<VertexKey>,
    /// index into `Snap::verts` per slot (usize::MAX when the key does not resolve)
    pub vi: Vec<usize>,
    pub nb: Option<Vec<Option<CellKey>>>,
    pub data: String,
}

#[derive(Clone, Debug)]
pub struct Snap<const D: usize> {
    pub verts: Vec<VSnap<D>>,
    pub cells: Vec<CSnap>,
    pub vidx: HashMap<VertexKey, usize>,
    pub cidx: HashMap<CellKey, usize>,
}

pub fn kffi<K: Key>(k: K) -> u64 {
    k.data().as_ffi()
}

impl<const D: usize> Snap<D> {
    pub fn of<U: DataType, V: DataType>(tds: &Tds<f64, U, V, D>) -> Self {
        let mut verts = Vec::new();
        let mut vidx = HashMap::new();
        for (k, v) in tds.vertices() {
            vidx.insert(k, verts.len());
            verts.push(VSnap { key: k, uuid: v.uuid(), c: *v.point().coords(), data: format!("{:?}", v.data), incident: v.incident_cell });
        }
        let mut cells = Vec::new();
        let mut cidx = HashMap::new();
        for (k, c) in tds.cells() {
            cidx.insert(k, cells.len());
            let v: Vec<VertexKey> = c.vertices().to_vec();
            let vi = v.iter().map(|vk| vidx.get(vk).copied().unwrap_or(usize::MAX)).collect();
            let nb = c.neighbors().map(|n| n.iter().copied().collect());
            cells.push(CSnap { key: k, uuid: c.uuid(), v, vi, nb, data: format!("{:?}", c.data) });
        }
        Snap { verts, cells, vidx, cidx }
    }

    pub fn n_vertices(&self) -> usize {
        self.verts.len()
    }
    pub fn n_cells(&self) -> usize {
        self.cells.len()
    }

    pub fn coords_of(&self, vi: usize) -> &[f64] {
        &self.verts[vi].c
    }

    /// coordinates of a cell's vertices in slot order; None if a vertex key is dangling
    pub fn cell_points(&self, ci: usize) -> Option<Vec<&[f64]>> {
        let c = &self.cells[ci];
        c.vi.iter().map(|&i| if i == usize::MAX { None } else { Some(&self.verts[i].c[..]) }).collect()
    }

    /// cell as sorted list of vertex UUIDs
    pub fn cell_uuid_set(&self, ci: usize) -> Vec<Uuid> {
        let mut u: Vec<Uuid> = self.cells[ci].vi.iter().map(|&i| if i == usize::MAX { Uuid::nil() } else { self.verts[i].uuid }).collect();
        u.sort();
        u
    }

    /// cell set as sorted list of sorted vertex-UUID lists
    pub fn cell_sets(&self) -> Vec<Vec<Uuid>> {
        let mut s: Vec<Vec<Uuid>> = (0..self.cells.len()).map(|i| self.cell_uuid_set(i)).collect();
        s.sort();
        s
    }

    /// cell set as sorted list of sorted coordinate-bit tuples (UUID independent)
    pub fn cell_coord_sets(&self) -> Vec<Vec<Vec<u64>>> {
        let mut s: Vec<Vec<Vec<u64>>> = self
            .cells
            .iter()
            .map(|c| {
                let mut t: Vec<Vec<u64>> = c.vi.iter().map(|&i| self.verts[i].c.iter().map(|x| canon_bits(*x)).collect()).collect();
                t.sort();
                t
            })
            .collect();
        s.sort();
        s
    }

    /// Semantic fingerprint (DESIGN 2.3): vertices by UUID with coordinate bits and data; cells as
    /// vertex-UUID sets with data (and optionally cell UUIDs); neighbour relation as unordered pairs.
    pub fn semantic(&self, with_cell_uuids: bool) -> String {
        let mut vs: Vec<String> = self
            .verts
            .iter()
            .map(|v| format!("{}:{}:{}", v.uuid.simple(), v.c.iter().map(|x| format!("{:016x}", x.to_bits())).collect::<Vec<_>>().join(","), v.data))
            .collect();
        vs.sort();
        let ids: Vec<String> = (0..self.cells.len()).map(|i| self.cell_uuid_set(i).iter().map(|u| u.simple().to_string()).collect::<Vec<_>>().join("+")).collect();
        let mut cs: Vec<String> = self
            .cells
            .iter()
            .enumerate()
            .map(|(i, c)| if with_cell_uuids { format!("{}#{}#{}", ids[i], c.data, c.uuid.simple()) } else { format!("{}#{}", ids[i], c.data) })
            .collect();
        cs.sort();
        let mut ns: Vec<String> = Vec::new();
        for (i, c) in self.cells.iter().enumerate() {
            if let Some(nb) = &c.nb {
                for n in nb.iter().flatten() {
                    let other = match self.cidx.get(n) {
                        Some(&j) => ids[j].clone(),
                        None => format!("dangling{:x}", kffi(*n)),
                    };
                    let (a, b) = if ids[i] <= other { (ids[i].clone(), other) } else { (other, ids[i].clone()) };
                    ns.push(format!("{a}~{b}"));
                }
            }
        }
        ns.sort();
        ns.dedup();
        format!("V{}[{}]C{}[{}]N[{}]", vs.len(), vs.join(";"), cs.len(), cs.join(";"), ns.join(";"))
    }

    /// Ordered dump (explorer dedup key): storage order, keys, slot order, neighbour slots, incident cells.
    /// Random cell UUIDs are left out (never branched on).
    pub fn ordered_dump(&self) -> String {
        let mut s = String::new();
        for v in &self.verts {
            s.push_str(&format!(
                "v{:x}:{}:{}:{}:{:?};",
                kffi(v.key),
                v.uuid.simple(),
                v.c.iter().map(|x| format!("{:016x}", x.to_bits())).collect::<Vec<_>>().join(","),
                v.data,
                v.incident.map(kffi)
            ));
        }
        for c in &self.cells {
            s.push_str(&format!(
                "c{:x}:{:?}:{:?}:{};",
                kffi(c.key),
                c.v.iter().map(|k| kffi(*k)).collect::<Vec<_>>(),
                c.nb.as_ref().map(|n| n.iter().map(|k| k.map(kffi)).collect::<Vec<_>>()),
                c.data
            ));
        }
        s
    }
}

/// Bits of x with -0.0 folded into +0.0.
pub fn canon_bits(x: f64) -> u64 {
    if x == 0.0 { 0 } else { x.to_bits() }
}

/// Deterministic 128-bit digest of a string (two SipHash passes with different prefixes).
pub fn digest(s: &str) -> u128 {
    let mut h1 = std::collections::hash_map::DefaultHasher::new();
    0x9e3779b97f4a7c15u64.hash(&mut h1);
    s.hash(&mut h1);
    let mut h2 = std::collections::hash_map::DefaultHasher::new();
    0xc2b2ae3d27d4eb4fu64.hash(&mut h2);
    s.hash(&mut h2);
    ((h1.finish() as u128) << 64) | h2.finish() as u128
}

/// Deterministic version-4-shaped UUID from a counter (Level 1 rejects non-v4 UUIDs).
pub fn uuid_v4_from(counter: u128) -> Uuid {
    // spread the counter so that the version/variant bits overwritten by the builder never collide
    let hi = (counter as u64).wrapping_mul(0x9e3779b97f4a7c15) as u128;
    let bytes = ((hi << 64) | (counter & 0xffff_ffff_ffff_ffff) | ((counter >> 64) << 80)).to_be_bytes();
    // keep the low 32 bits of the counter verbatim in bytes 12..16 (untouched by version/variant bits)
    let mut b = bytes;
    b[12..16].copy_from_slice(&(counter as u32).to_be_bytes());
    uuid::Builder::from_random_bytes(b).into_uuid()
}
