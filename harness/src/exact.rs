//! Exact geometric predicates on `f64` inputs (every finite f64 is a dyadic rational).
//!
//! All coordinates of one predicate call are scaled by one common power of two to integers,
//! which changes no determinant sign. Determinants are evaluated division-free by Laplace
//! expansion with a subset DP (n <= 7), first in checked `i128`, then in `BigInt` on overflow.

use crate::bigint::BigInt;

/// f64 -> (m, e) with x == m * 2^e, m odd (or 0).
pub fn decompose(x: f64) -> (i64, i32) {
    assert!(x.is_finite(), "exact arithmetic on non-finite input");
    if x == 0.0 {
        return (0, 0);
    }
    let bits = x.to_bits();
    let neg = (bits >> 63) != 0;
    let exp = ((bits >> 52) & 0x7ff) as i32;
    let frac = bits & ((1u64 << 52) - 1);
    let (mut m, mut e) = if exp == 0 { (frac, -1074) } else { (frac | (1u64 << 52), exp - 1075) };
    let tz = m.trailing_zeros();
    m >>= tz;
    e += tz as i32;
    (if neg { -(m as i64) } else { m as i64 }, e)
}

trait Num: Clone {
    fn from_scaled(m: i64, shift: u32) -> Option<Self>;
    fn zero() -> Self;
    fn add(&self, o: &Self) -> Option<Self>;
    fn sub(&self, o: &Self) -> Option<Self>;
    fn mul(&self, o: &Self) -> Option<Self>;
    fn signum(&self) -> i32;
    fn to_f64_exp(&self) -> (f64, i64);
}

impl Num for i128 {
    fn from_scaled(m: i64, shift: u32) -> Option<Self> {
        if shift > 60 {
            return None;
        }
        (m as i128).checked_mul(1i128 << shift)
    }
    fn zero() -> Self {
        0
    }
    fn add(&self, o: &Self) -> Option<Self> {
        self.checked_add(*o)
    }
    fn sub(&self, o: &Self) -> Option<Self> {
        self.checked_sub(*o)
    }
    fn mul(&self, o: &Self) -> Option<Self> {
        self.checked_mul(*o)
    }
    fn signum(&self) -> i32 {
        i128::signum(*self) as i32
    }
    fn to_f64_exp(&self) -> (f64, i64) {
        BigInt::from_i128(*self).to_f64_exp()
    }
}

impl Num for BigInt {
    fn from_scaled(m: i64, shift: u32) -> Option<Self> {
        Some(BigInt::from_i128(m as i128).shl(shift))
    }
    fn zero() -> Self {
        BigInt::zero()
    }
    fn add(&self, o: &Self) -> Option<Self> {
        Some(BigInt::add(self, o))
    }
    fn sub(&self, o: &Self) -> Option<Self> {
        Some(BigInt::sub(self, o))
    }
    fn mul(&self, o: &Self) -> Option<Self> {
        Some(BigInt::mul(self, o))
    }
    fn signum(&self) -> i32 {
        BigInt::signum(self)
    }
    fn to_f64_exp(&self) -> (f64, i64) {
        BigInt::to_f64_exp(self)
    }
}

/// Determinant of an n x n matrix (row-major), division-free.
fn det<N: Num>(a: &[Vec<N>]) -> Option<N> {
    let n = a.len();
    if n == 0 {
        return N::from_scaled(1, 0);
    }
    debug_assert!(n <= 12);
    let full = 1usize << n;
    // dp[mask] = det of the minor made of rows 0..popcount(mask) and the columns in mask
    let mut dp: Vec<Option<N>> = vec![None; full];
    dp[0] = N::from_scaled(1, 0);
    for mask in 1..full {
        let k = (mask as u32).count_ones() as usize; // minor size; expand along its last row k-1
        let row = &a[k - 1];
        let mut acc = N::zero();
        let mut pos = 0usize;
        for j in 0..n {
            if mask & (1 << j) == 0 {
                continue;
            }
            let sub = dp[mask & !(1 << j)].as_ref().expect("dp order");
            let term = row[j].mul(sub)?;
            if (k - 1 + pos) % 2 == 0 {
                acc = acc.add(&term)?;
            } else {
                acc = acc.sub(&term)?;
            }
            pos += 1;
        }
        dp[mask] = Some(acc);
    }
    dp[full - 1].clone()
}

/// Result of an exact evaluation: sign and an f64 approximation of the magnitude
/// in the units of the input coordinates (relative error < 1e-15; may be 0/inf on range overflow).
#[derive(Clone, Copy, Debug, PartialEq)]
pub struct Exact {
    pub sign: i32,
    pub mag: f64,
}

struct Scaled {
    emin: i32,
    /// per coordinate: (m, shift)
    vals: Vec<Vec<(i64, u32)>>,
    max_bits: u32,
}

fn scale(points: &[&[f64]]) -> Scaled {
    let mut emin = i32::MAX;
    let dec: Vec<Vec<(i64, i32)>> = points.iter().map(|p| p.iter().map(|&x| decompose(x)).collect()).collect();
    for p in &dec {
        for &(m, e) in p {
            if m != 0 {
                emin = emin.min(e);
            }
        }
    }
    if emin == i32::MAX {
        emin = 0;
    }
    let mut max_bits = 0u32;
    let vals = dec
        .iter()
        .map(|p| {
            p.iter()
                .map(|&(m, e)| {
                    if m == 0 {
                        (0, 0)
                    } else {
                        let sh = (e - emin) as u32;
                        max_bits = max_bits.max(64 - m.unsigned_abs().leading_zeros() + sh);
                        (m, sh)
                    }
                })
                .collect()
        })
        .collect();
    Scaled { emin, vals, max_bits }
}

fn unscale(m: f64, e: i64, emin: i32, degree: u32) -> f64 {
    let total = e + emin as i64 * degree as i64;
    if m == 0.0 {
        0.0
    } else if total > 1023 {
        f64::INFINITY
    } else if total < -1100 {
        0.0
    } else {
        // split to avoid intermediate overflow
        let h = (total / 2) as i32;
        m.abs() * 2f64.powi(h) * 2f64.powi(total as i32 - h)
    }
}

fn build<N: Num>(s: &Scaled) -> Option<Vec<Vec<N>>> {
    s.vals.iter().map(|p| p.iter().map(|&(m, sh)| N::from_scaled(m, sh)).collect::<Option<Vec<N>>>()).collect()
}

/// Orientation matrix det[[p_i - p_0 .., 1]] in the library's convention `det[[p_i, 1]]`.
fn orient_impl<N: Num>(s: &Scaled) -> Option<(i32, (f64, i64))> {
    let pts: Vec<Vec<N>> = build(s)?;
    let n = pts.len();
    let d = pts[0].len();
    assert_eq!(n, d + 1);
    let one = N::from_scaled(1, 0)?;
    let mut rows = Vec::with_capacity(n);
    for i in 0..n {
        let mut r = Vec::with_capacity(n);
        for j in 0..d {
            r.push(pts[i][j].sub(&pts[0][j])?);
        }
        r.push(one.clone());
        rows.push(r);
    }
    let v = det(&rows)?;
    Some((v.signum(), v.to_f64_exp()))
}

/// Sign of `det[[p_i, 1]]_{i=0..D}` (the library's orientation convention) for D+1 points in D dims.
pub fn orient(points: &[&[f64]]) -> Exact {
    let s = scale(points);
    let d = points[0].len() as u32;
    let r = if s.max_bits <= 40 { orient_impl::<i128>(&s) } else { None };
    let (sign, (m, e)) = r.unwrap_or_else(|| orient_impl::<BigInt>(&s).expect("bigint never overflows"));
    Exact { sign, mag: unscale(m, e, s.emin, d) }
}

fn insphere_det_impl<N: Num>(s: &Scaled) -> Option<(i32, (f64, i64))> {
    // last point is the query q; rows [p_i - q, |p_i - q|^2], i = 0..D
    let pts: Vec<Vec<N>> = build(s)?;
    let n = pts.len() - 1;
    let d = pts[0].len();
    assert_eq!(n, d + 1);
    let q = &pts[n];
    let mut rows = Vec::with_capacity(n);
    for p in pts.iter().take(n) {
        let mut r = Vec::with_capacity(n);
        let mut sq = N::zero();
        for j in 0..d {
            let df = p[j].sub(&q[j])?;
            sq = sq.add(&df.mul(&df)?)?;
            r.push(df);
        }
        r.push(sq);
        rows.push(r);
    }
    let v = det(&rows)?;
    Some((v.signum(), v.to_f64_exp()))
}

/// Raw lifted determinant `det[p_i - q, |p_i - q|^2]` (equals the standard (D+2)x(D+2) in-sphere determinant).
pub fn insphere_det(simplex: &[&[f64]], q: &[f64]) -> Exact {
    let mut all: Vec<&[f64]> = simplex.to_vec();
    all.push(q);
    let s = scale(&all);
    let d = q.len() as u32;
    let r = if s.max_bits <= 24 { insphere_det_impl::<i128>(&s) } else { None };
    let (sign, (m, e)) = r.unwrap_or_else(|| insphere_det_impl::<BigInt>(&s).expect("bigint"));
    Exact { sign, mag: unscale(m, e, s.emin, d + 2) }
}

/// Parity factor s_D such that `insphere = sign(det L) * sign(orient) * s_D` is +1 strictly inside.
/// Calibrated from one simplex per dimension and verified by `self_check`.
pub fn insphere_parity(d: usize) -> i32 {
    // standard simplex scaled by (d+1): vertices 0 and (d+1) e_i; centroid = (1,..,1)
    let mut pts: Vec<Vec<f64>> = vec![vec![0.0; d]];
    for i in 0..d {
        let mut p = vec![0.0; d];
        p[i] = (d + 1) as f64;
        pts.push(p);
    }
    let q = vec![1.0; d];
    let refs: Vec<&[f64]> = pts.iter().map(|p| p.as_slice()).collect();
    let o = orient(&refs).sign;
    let l = insphere_det(&refs, &q).sign;
    assert!(o != 0 && l != 0);
    o * l
}

/// +1 strictly inside the circumsphere, 0 on it, -1 strictly outside; `None` if the simplex is exactly degenerate.
/// `mag` is |lifted determinant| (the quantity the library's tolerance is compared against).
pub fn insphere(simplex: &[&[f64]], q: &[f64]) -> Option<Exact> {
    let o = orient(simplex);
    if o.sign == 0 {
        return None;
    }
    let l = insphere_det(simplex, q);
    Some(Exact { sign: l.sign * o.sign * insphere_parity_cached(q.len()), mag: l.mag })
}

pub fn insphere_parity_cached(d: usize) -> i32 {
    use std::sync::OnceLock;
    static C: OnceLock<[i32; 8]> = OnceLock::new();
    C.get_or_init(|| {
        let mut a = [0; 8];
        for (d, slot) in a.iter_mut().enumerate().skip(1) {
            *slot = insphere_parity(d);
        }
        a
    })[d]
}

/// Independent in-sphere formulation through the circumcentre (Cramer's rule, cross-multiplied):
/// inside  <=>  ((|q|^2-|p0|^2) * Delta - 2 (q-p0).N) * Delta < 0  where c = N / Delta solves
/// 2 (p_i - p_0) . c = |p_i|^2 - |p_0|^2. Integer inputs only (used by the self check).
pub fn insphere_via_circumcenter_i128(simplex: &[Vec<i64>], q: &[i64]) -> Option<i32> {
    let d = q.len();
    let p0 = &simplex[0];
    let sq = |p: &[i64]| -> i128 { p.iter().map(|&x| (x as i128) * (x as i128)).sum() };
    let a: Vec<Vec<i128>> = (1..=d).map(|i| (0..d).map(|j| 2 * (simplex[i][j] - p0[j]) as i128).collect()).collect();
    let b: Vec<i128> = (1..=d).map(|i| sq(&simplex[i]) - sq(p0)).collect();
    let delta = det::<i128>(&a)?;
    if delta == 0 {
        return None;
    }
    let mut n = Vec::with_capacity(d);
    for j in 0..d {
        let mut m = a.clone();
        for i in 0..d {
            m[i][j] = b[i];
        }
        n.push(det::<i128>(&m)?);
    }
    // |q - c|^2 - |p0 - c|^2 = |q|^2 - |p0|^2 - 2 (q - p0).c ; multiply by Delta^2 > 0
    let mut dot: i128 = 0;
    for j in 0..d {
        dot += 2 * ((q[j] - p0[j]) as i128) * n[j];
    }
    let lhs = (sq(q) - sq(p0)) * delta - dot;
    let v = lhs.checked_mul(delta)?;
    Some(-(v.signum() as i32))
}

/// Sign of orientation of `facet + [apex]` relative to `facet + [q]`:
/// +1 if q strictly on the same side of the facet hyperplane as apex, 0 on the hyperplane, -1 opposite.
/// `None` if facet+apex is degenerate.
pub fn side_of_facet(facet: &[&[f64]], apex: &[f64], q: &[f64]) -> Option<Exact> {
    let mut a: Vec<&[f64]> = facet.to_vec();
    a.push(apex);
    let oa = orient(&a);
    if oa.sign == 0 {
        return None;
    }
    let n = a.len();
    a[n - 1] = q;
    let oq = orient(&a);
    Some(Exact { sign: oa.sign * oq.sign, mag: oq.mag })
}

/// Position of q relative to a non-degenerate simplex: Some(min over facets of side sign):
/// +1 strictly inside, 0 on the boundary (closed simplex contains q), -1 outside.
pub fn simplex_position(simplex: &[&[f64]], q: &[f64]) -> Option<i32> {
    let o = orient(simplex);
    if o.sign == 0 {
        return None;
    }
    let mut min = 1;
    let mut tmp: Vec<&[f64]> = simplex.to_vec();
    for i in 0..simplex.len() {
        tmp[i] = q;
        let s = orient(&tmp).sign * o.sign;
        tmp[i] = simplex[i];
        min = min.min(s);
    }
    Some(min)
}

/// Exact squared distance comparison: sign(|a-b|^2 - t^2) for finite t >= 0.
pub fn dist_cmp(a: &[f64], b: &[f64], t: f64) -> i32 {
    let tt = [t];
    let s = scale(&[a, b, &tt]);
    let pts: Vec<Vec<BigInt>> = build(&s).unwrap();
    let mut acc = BigInt::zero();
    for j in 0..a.len() {
        let d = pts[0][j].sub(&pts[1][j]);
        acc = acc.add(&d.mul(&d));
    }
    let t2 = pts[2][0].mul(&pts[2][0]);
    acc.sub(&t2).signum()
}

/// Exact affine rank test: are the given points (any count) affinely dependent in the sense that
/// every (D+1)-subset is degenerate? Returns the affine dimension of the point set.
pub fn affine_dim(points: &[&[f64]]) -> usize {
    // Gaussian elimination over exact fractions is heavier than needed; use incremental
    // independent-subset growth with exact minors (Gram-free): keep a list of independent
    // difference vectors and test a new one through all maximal minors.
    if points.is_empty() {
        return 0;
    }
    let d = points[0].len();
    let s = scale(points);
    let pts: Vec<Vec<BigInt>> = build(&s).unwrap();
    let diffs: Vec<Vec<BigInt>> = pts.iter().skip(1).map(|p| (0..d).map(|j| p[j].sub(&pts[0][j])).collect()).collect();
    let mut basis: Vec<Vec<BigInt>> = Vec::new();
    for v in diffs {
        if basis.len() == d {
            break;
        }
        let mut cand = basis.clone();
        cand.push(v);
        if rank_full(&cand, d) {
            basis = cand;
        }
    }
    basis.len()
}

/// true iff the k x d matrix (k <= d) has rank k: some k x k minor is non-zero.
fn rank_full(rows: &[Vec<BigInt>], d: usize) -> bool {
    let k = rows.len();
    let mut cols: Vec<usize> = (0..k).collect();
    loop {
        let m: Vec<Vec<BigInt>> = rows.iter().map(|r| cols.iter().map(|&c| r[c].clone()).collect()).collect();
        if det::<BigInt>(&m).unwrap().signum() != 0 {
            return true;
        }
        // next combination
        let mut i = k;
        loop {
            if i == 0 {
                return false;
            }
            i -= 1;
            if cols[i] != i + d - k {
                break;
            }
            if i == 0 {
                return false;
            }
        }
        cols[i] += 1;
        for j in i + 1..k {
            cols[j] = cols[j - 1] + 1;
        }
    }
}

// ---------------------------------------------------------------------------------------------
// The library's documented tolerance band, recomputed independently (DESIGN 2.1)
// ---------------------------------------------------------------------------------------------

const U: f64 = 1.1102230246251565e-16;

/// (infinity norm = max abs row sum (optionally without the last column), Hadamard product of column 2-norms)
fn norms(rows: &[Vec<f64>], exclude_last: bool) -> (f64, f64) {
    let mut inf = 0.0f64;
    for r in rows {
        let lim = if exclude_last { r.len() - 1 } else { r.len() };
        let s: f64 = r[..lim].iter().map(|x| x.abs()).sum();
        inf = inf.max(s);
    }
    let n = rows.len();
    let mut prod = 1.0f64;
    for j in 0..n {
        prod *= rows.iter().map(|r| r[j] * r[j]).sum::<f64>().sqrt();
    }
    (inf, prod)
}

/// A-priori bound on the rounding error of an LU determinant of an n x n matrix: partial pivoting is
/// invariant under power-of-two column scaling, so the bound is taken on the column-equilibrated
/// matrix: growth (<= 2^(n-1)) * n^3 * u * prod_j ||col_j||_2 (with a factor 2 per column for the
/// power-of-two equilibration slack folded into the growth constant).
fn lu_err(n: usize, col_hadamard: f64) -> f64 {
    let nn = n as f64;
    2f64.powi(n as i32 - 1) * nn * nn * nn * U * col_hadamard
}

/// (tol, err) for the orientation matrix `[p_i, 1]` the library builds.
pub fn orient_band(points: &[&[f64]]) -> (f64, f64) {
    let rows: Vec<Vec<f64>> = points
        .iter()
        .map(|p| {
            let mut r = p.to_vec();
            r.push(1.0);
            r
        })
        .collect();
    let (inf, prod) = norms(&rows, true);
    (1e-15 + 1e-12 * inf, lu_err(rows.len(), prod))
}

/// (tol, err) for the standard in-sphere matrix `[p_i, |p_i|^2, 1]` + `[q, |q|^2, 1]`.
pub fn insphere_band(simplex: &[&[f64]], q: &[f64]) -> (f64, f64) {
    let mut rows: Vec<Vec<f64>> = Vec::new();
    for p in simplex.iter().chain(std::iter::once(&q)) {
        let mut r = p.to_vec();
        r.push(p.iter().map(|x| x * x).sum());
        r.push(1.0);
        rows.push(r);
    }
    let (inf, prod) = norms(&rows, true);
    (1e-15 + 1e-12 * inf, lu_err(rows.len(), prod))
}

/// "Certain" strict in-sphere violation: exact sign is inside, the simplex is certainly
/// non-degenerate and the determinant is well clear of the tolerance band.
pub fn certainly_inside(simplex: &[&[f64]], q: &[f64]) -> bool {
    let o = orient(simplex);
    if o.sign == 0 {
        return false;
    }
    let (otol, oerr) = orient_band(simplex);
    if !(o.mag > 4.0 * otol + oerr) {
        return false;
    }
    let l = insphere_det(simplex, q);
    let s = l.sign * o.sign * insphere_parity_cached(q.len());
    if s <= 0 {
        return false;
    }
    let (tol, err) = insphere_band(simplex, q);
    l.mag > 4.0 * tol + err
}

/// Start-up self check of the oracle's sign conventions over small integer grids:
/// the lifted determinant formulation must agree with the independent circumcentre formulation
/// on every non-degenerate (simplex, query) tuple. Returns the number of tuples compared.
pub fn self_check() -> u64 {
    let mut n = 0u64;
    // D=1..3 exhaustive on small grids; D=4,5 on cube corners + centre subsets (strided)
    fn grid(d: usize, g: i64) -> Vec<Vec<i64>> {
        let mut out = vec![vec![]];
        for _ in 0..d {
            let mut nx = Vec::new();
            for p in &out {
                for v in 0..g {
                    let mut q: Vec<i64> = p.clone();
                    q.push(v);
                    nx.push(q);
                }
            }
            out = nx;
        }
        out
    }
    for (d, g, stride) in [(1usize, 4i64, 1usize), (2, 3, 1), (3, 2, 1), (4, 2, 3331), (5, 2, 6_900_007)] {
        let pts = grid(d, g);
        let np = pts.len();
        let k = d + 2;
        let total = np.pow(k as u32);
        let mut idx = 0usize;
        while idx < total {
            let mut t = idx;
            let mut sel = Vec::with_capacity(k);
            for _ in 0..k {
                sel.push(t % np);
                t /= np;
            }
            idx += stride;
            let simplex: Vec<Vec<i64>> = sel[..d + 1].iter().map(|&i| pts[i].clone()).collect();
            let q = &pts[sel[d + 1]];
            let sf: Vec<Vec<f64>> = simplex.iter().map(|p| p.iter().map(|&x| x as f64).collect()).collect();
            let refs: Vec<&[f64]> = sf.iter().map(|p| p.as_slice()).collect();
            let qf: Vec<f64> = q.iter().map(|&x| x as f64).collect();
            let a = insphere(&refs, &qf).map(|e| e.sign);
            let b = insphere_via_circumcenter_i128(&simplex, q);
            assert_eq!(a, b, "oracle self-check failed: D={d} simplex={simplex:?} q={q:?}");
            if a.is_some() {
                n += 1;
            }
        }
    }
    n
}

#[cfg(test)]
mod tests {
    use super::*;
    #[test]
    fn selfcheck() {
        assert!(self_check() > 1000);
    }
    #[test]
    fn decompose_roundtrip() {
        for &x in &[1.0, -0.75, 1e-300, 5e-324, 1e300, 0.1, -3.5, 1.0 + 1e-8] {
            let (m, e) = decompose(x);
            assert_eq!(m as f64 * 2f64.powi(e.max(-1000)) * 2f64.powi(e - e.max(-1000)), x);
        }
    }
    #[test]
    fn orient_basic() {
        let a = [0.0, 0.0];
        let b = [1.0, 0.0];
        let c = [0.0, 1.0];
        let o = orient(&[&a, &b, &c]);
        assert_eq!(o.sign, 1);
        assert!((o.mag - 1.0).abs() < 1e-12);
        let o2 = orient(&[&a, &c, &b]);
        assert_eq!(o2.sign, -1);
        // huge & tiny
        let a = [1e-300, 0.0];
        let b = [1e300, 1e-300];
        let c = [0.0, 1e300];
        assert!(orient(&[&a, &b, &c]).sign != 0);
        assert_eq!(affine_dim(&[&[0.0, 0.0][..], &[1.0, 1.0], &[2.0, 2.0]]), 1);
        assert_eq!(affine_dim(&[&[0.0, 0.0][..], &[1.0, 1.0], &[2.0, 2.5]]), 2);
        assert_eq!(dist_cmp(&[0.0, 0.0], &[3.0, 4.0], 5.0), 0);
        assert_eq!(dist_cmp(&[0.0, 0.0], &[3.0, 4.0], 5.000001), -1);
    }
}

// ---------------------------------------------------------------------------------------------
// Exact simplex measures (C18): Gram determinants and circumcentres in big integers
// ---------------------------------------------------------------------------------------------

/// Gram determinant det[(p_i - p_0).(p_j - p_0)]_{i,j=1..k} of k+1 points in any ambient dimension
/// (= (k! * k-volume)^2), exactly; returned as an f64 approximation with sign.
pub fn gram_det(points: &[&[f64]]) -> Exact {
    let s = scale(points);
    let pts: Vec<Vec<BigInt>> = build(&s).unwrap();
    let k = pts.len() - 1;
    let d = pts[0].len();
    let diffs: Vec<Vec<BigInt>> = (1..=k).map(|i| (0..d).map(|j| pts[i][j].sub(&pts[0][j])).collect()).collect();
    let g: Vec<Vec<BigInt>> = (0..k).map(|a| (0..k).map(|b| (0..d).fold(BigInt::zero(), |acc, j| acc.add(&diffs[a][j].mul(&diffs[b][j])))).collect()).collect();
    let v = det::<BigInt>(&g).unwrap();
    let (m, e) = v.to_f64_exp();
    Exact { sign: v.signum(), mag: unscale(m, e, s.emin, 2 * k as u32) }
}

/// Circumcentre (relative to the first point) and circumradius of a non-degenerate D-simplex in D dims,
/// by Cramer's rule in exact integers, converted once to f64. None if exactly degenerate.
pub fn circumsphere(points: &[&[f64]]) -> Option<(Vec<f64>, f64)> {
    let s = scale(points);
    let pts: Vec<Vec<BigInt>> = build(&s).unwrap();
    let d = pts[0].len();
    if pts.len() != d + 1 {
        return None;
    }
    let two = BigInt::from_i128(2);
    let a: Vec<Vec<BigInt>> = (1..=d).map(|i| (0..d).map(|j| pts[i][j].sub(&pts[0][j]).mul(&two)).collect()).collect();
    let b: Vec<BigInt> = (1..=d)
        .map(|i| {
            (0..d).fold(BigInt::zero(), |acc, j| {
                let df = pts[i][j].sub(&pts[0][j]);
                acc.add(&df.mul(&df))
            })
        })
        .collect();
    let delta = det::<BigInt>(&a).unwrap();
    if delta.is_zero() {
        return None;
    }
    let (dm, de) = delta.to_f64_exp();
    let mut c = Vec::with_capacity(d);
    let mut r2 = 0.0f64;
    for j in 0..d {
        let mut m = a.clone();
        for i in 0..d {
            m[i][j] = b[i].clone();
        }
        let n = det::<BigInt>(&m).unwrap();
        let (nm, ne) = n.to_f64_exp();
        // x_j = N_j / Delta in scaled units; one factor 2^emin brings it back to input units
        let x = if nm == 0.0 { 0.0 } else { (nm / dm) * 2f64.powi((ne - de) as i32 + s.emin) };
        r2 += x * x;
        c.push(x);
    }
    Some((c, r2.sqrt()))
}
