//! Re-execution of recorded violations without the explorer (DESIGN 2.6).
//! History-shaped replays (alphabet + ops) are re-run op by op on a fresh triangulation and every outcome
//! and reference verdict is printed; other replay shapes are printed as recorded.

use crate::dtx::reference_verdict;
use crate::model::{self, DtI, Op};
use delaunay::core::delaunay_triangulation::{ConstructionOptions, DelaunayTriangulation};
use delaunay::core::triangulation::TopologyGuarantee;
use delaunay::geometry::kernel::{FastKernel, Kernel, RobustKernel};
use serde_json::Value;

fn run_history<K: Kernel<D, Scalar = f64>, const D: usize>(r: &Value) -> bool {
    let raw = |v: &Value| -> Vec<[f64; D]> { v.as_array().map(|a| a.iter().map(|p| std::array::from_fn(|i| p[i].as_f64().unwrap_or(f64::NAN))).collect()).unwrap_or_default() };
    let alphabet = raw(&r["alphabet"]);
    let mut ops: Vec<Op> = Vec::new();
    for key in ["history", "ops"] {
        if let Some(a) = r[key].as_array() {
            for o in a {
                if let Ok(op) = serde_json::from_value::<Op>(o.clone()) {
                    ops.push(op);
                }
            }
        }
    }
    if let Ok(op) = serde_json::from_value::<Op>(r["op"].clone()) {
        ops.push(op);
    }
    if alphabet.is_empty() && ops.is_empty() {
        return false;
    }
    let seed_pts = raw(&r["seed_points"]);
    let mut dt: DtI<K, D> = if seed_pts.is_empty() {
        DelaunayTriangulation::with_empty_kernel(K::default())
    } else {
        let vs: Vec<_> = seed_pts.iter().enumerate().map(|(i, c)| crate::alpha::mk_vertex::<i32, D>(*c, 0x9000 + i as u128, Some(1000 + i as i32))).collect();
        match DelaunayTriangulation::with_topology_guarantee_and_options(&K::default(), &vs, TopologyGuarantee::DEFAULT, ConstructionOptions::default()) {
            Ok(d) => d,
            Err(e) => {
                println!("seed construction failed: {e}");
                return true;
            }
        }
    };
    println!("re-executing {} operations on a fresh triangulation (D={D})", ops.len());
    for (i, op) in ops.iter().enumerate() {
        let out = model::apply(&mut dt, op, &alphabet);
        let (s, v) = reference_verdict(&dt, false, false);
        println!("  {i:>2}: {op:?} -> {}   [{} vertices, {} cells, reference: {}]", out.class(), s.n_vertices(), s.n_cells(), v.first().unwrap_or_else(|| "ok".into()));
    }
    println!("library: validate() = {:?}", dt.validate().map_err(|e| e.to_string()));
    true
}

/// Generic `--replay <file>` handler. Returns the process exit code.
pub fn generic(path: &str) -> i32 {
    let doc: Value = match std::fs::read_to_string(path).ok().and_then(|t| serde_json::from_str(&t).ok()) {
        Some(d) => d,
        None => {
            eprintln!("MACHINERY: cannot read replay file {path}");
            return 2;
        }
    };
    println!("replay {path}\n  property:  {}\n  signature: {}\n  recorded:  {}", doc["property"], doc["signature"], doc["description"]);
    let r = &doc["replay"];
    let d = r["D"].as_u64().unwrap_or(0);
    let fast = r["kernel"] != "robust";
    let ran = match (d, fast) {
        (2, true) => run_history::<FastKernel<f64>, 2>(r),
        (2, false) => run_history::<RobustKernel<f64>, 2>(r),
        (3, true) => run_history::<FastKernel<f64>, 3>(r),
        (3, false) => run_history::<RobustKernel<f64>, 3>(r),
        (4, true) => run_history::<FastKernel<f64>, 4>(r),
        (4, false) => run_history::<RobustKernel<f64>, 4>(r),
        (5, true) => run_history::<FastKernel<f64>, 5>(r),
        (5, false) => run_history::<RobustKernel<f64>, 5>(r),
        _ => false,
    };
    if !ran {
        println!("  (not a history-shaped replay; recorded input follows)\n{}", serde_json::to_string_pretty(r).unwrap_or_default());
    }
    0
}
