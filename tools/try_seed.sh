#!/bin/bash
# try_seed.sh <patch.diff> <Cxx> [<Cyy>...] : apply a seeded change to /repo, run the quick checks, revert. Prints verdict lines.
p=$1; shift
git -C /repo status --short | grep -q . && { echo "/repo not clean"; exit 2; }
git -C /repo apply "$p" 2>/dev/null || git -C /repo apply -C1 "$p" || { echo "patch does not apply"; exit 2; }
for c in "$@"; do
  /verif/check $c --tier quick > /tmp/try_$c.out 2>&1; rc=$?
  echo "== $c exit=$rc  violations: $(grep -c '^VIOLATION' /tmp/try_$c.out)"
  grep -A1 '^VIOLATION' /tmp/try_$c.out | head -6
done
git -C /repo checkout -- . ; git -C /repo status --short | head -3
rm -f /verif/replays/C*-*.json
