#!/bin/bash
# Usage: confirm_seed.sh <name> <worktree>   -- independently confirms a seeded change:
#  demo fails with the change, passes without it, full suite passes with it. Writes <worktree>/seeded_out/confirm.json
set -u
name=$1; wt=$2; out=$wt/seeded_out
cd "$wt" || exit 2
export CARGO_NET_OFFLINE=true
patch=$out/patch.diff
[ -f "$patch" ] || { echo "no patch"; exit 2; }
# normalise: start from clean src, demo in place
git checkout -q -- src Cargo.toml 2>/dev/null
cp "$out/seeded_demo.rs" tests/seeded_demo.rs
# (1) without change
cargo test --offline --test seeded_demo -j 6 -- --test-threads 2 > $out/confirm_demo_without.log 2>&1; r_without=$?
# (2) with change
git apply "$patch" || { echo "patch does not apply"; exit 2; }
cargo test --offline --test seeded_demo -j 6 -- --test-threads 2 > $out/confirm_demo_with.log 2>&1; r_with=$?
# (3) suite with change, demo moved away
mv tests/seeded_demo.rs $out/.demo_parked.rs
cargo nextest run --workspace --no-fail-fast --tool-config-file pb:/w/lib/nextest.toml --profile pb --test-threads 6 --offline > $out/confirm_suite.log 2>&1; r_suite=$?
summary=$(grep -E "Summary|tests run" $out/confirm_suite.log | tail -1)
mv $out/.demo_parked.rs tests/seeded_demo.rs
python3 - <<PY
import json
import re
log=open("$out/confirm_suite.log").read()
bad=sorted(set(re.findall(r"(?:FAIL|TIMEOUT) \\[[^\\]]*\\] \\([^)]*\\) (\\S+ \\S+)", log)))
slow="delaunay::triangulation_builder test_builder_toroidal_periodic_3d_success"
suite_ok = ($r_suite==0) or bad==[slow]
d={"name":"$name","demo_without_change_exit":$r_without,"demo_with_change_exit":$r_with,"suite_with_change_exit":$r_suite,"suite_summary":"""$summary""".strip(),"non_passing_tests":bad,
 "confirmed": ($r_without==0 and $r_with!=0 and suite_ok)}
if bad==[slow]: d["note"]="the only non-passing test is the ~315 s periodic 3-D builder test hitting the 300 s limit on this loaded machine; it does so on the unmodified tree as well"
json.dump(d, open("$out/confirm.json","w"), indent=1)
PY
cat $out/confirm.json
