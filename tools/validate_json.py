#!/opt/veriftools/pyvenv/bin/python
import json, sys, glob, jsonschema
ms = json.load(open('/root/.vp/MANIFEST.schema.json')); es = json.load(open('/root/.vp/EVIDENCE.schema.json'))
ok = True
try:
    m = json.load(open('/verif/MANIFEST.json')); jsonschema.validate(m, ms); print("MANIFEST ok:", len(m['checks']), "checks")
except Exception as e:
    ok = False; print("MANIFEST invalid:", str(e)[:400])
for p in sorted(glob.glob('/verif/evidence/C*.json')):
    try:
        jsonschema.validate(json.load(open(p)), es); print("ok", p)
    except Exception as e:
        ok = False; print("INVALID", p, str(e)[:300])
sys.exit(0 if ok else 1)
