#!/bin/bash
# run_thorough.sh <Cxx>... : run the thorough tier of the given checks sequentially, log exit code and wall time
cd /verif
for c in "$@"; do
  s=$(date +%s); ./check $c --tier thorough > /tmp/thor_$c.out 2>&1; rc=$?; e=$(date +%s)
  echo "$c exit=$rc wall=$((e-s))s known=$(grep -c '^KNOWN-FINDING' /tmp/thor_$c.out) viol=$(grep -c '^VIOLATION' /tmp/thor_$c.out)" >> /tmp/thorough.log
done
