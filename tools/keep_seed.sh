#!/bin/bash
# keep_seed.sh <worktree-name> <seed-id> : copy a confirmed seeded change into /verif/seeded/<seed-id>/ and remove the worktree
set -e
wt=/tmp/seed/$1; dst=/verif/seeded/$2
grep -q '"confirmed": true' $wt/seeded_out/confirm.json || { echo "not confirmed"; exit 1; }
mkdir -p $dst
cp $wt/seeded_out/patch.diff $wt/seeded_out/seeded_demo.rs $dst/
[ -f $wt/seeded_out/patch.current-tree.diff ] && cp $wt/seeded_out/patch.current-tree.diff $dst/
python3 - <<PY
import json
m=json.load(open("$wt/seeded_out/meta.json")); c=json.load(open("$wt/seeded_out/confirm.json"))
m["confirmed_by_me"]=c
m["what_i_ran"]=["tools/confirm_seed.sh: demo without change (pass), demo with change (fail), full nextest suite with change (all pass)"]
json.dump(m,open("$dst/meta.json","w"),indent=1)
PY
git -C /repo worktree remove --force $wt
echo kept $dst
