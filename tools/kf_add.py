#!/usr/bin/env python3
"""kf_add.py <property> <id-prefix> "<description>" <replay.json>...  : append known-finding entries (one per
distinct signature) to /verif/known_findings.json and copy the first witness of each to replays/witness/."""
import json, sys, os, shutil
prop, prefix, desc = sys.argv[1:4]
path = '/verif/known_findings.json'
kf = json.load(open(path))
have = {json.dumps(e['signature'], sort_keys=True) for e in kf if e['property'] == prop}
n = sum(1 for e in kf if e['id'].startswith(prefix))
os.makedirs('/verif/replays/witness', exist_ok=True)
for f in sys.argv[4:]:
    d = json.load(open(f))
    k = json.dumps(d['signature'], sort_keys=True)
    if k in have:
        continue
    have.add(k)
    n += 1
    w = f'replays/witness/{prefix}-{n}.json'
    shutil.copy(f, '/verif/' + w)
    kf.append({"id": f"{prefix}-{n}", "property": prop, "status": "known", "signature": d['signature'], "witness": w, "description": desc})
json.dump(kf, open(path, 'w'), indent=1)
print(len(kf), "entries")
