#!/usr/bin/env python3
"""kf_counts.py [Cxx ...] : record, for every listed (status "known") finding of the given properties (default: all
that have an evidence part), how many inputs matched it in the evidence parts currently under evidence/parts/
(written by ./check on /repo's unchanged tree): known_findings.json[entry].max_matches["<tier>.<profile>"] = n.
A class that did not occur in a (tier, profile) that was run gets 0. Development-time tool: the checks only read
these numbers."""
import glob, json, os, sys
root = '/verif'
kf = json.load(open(f'{root}/known_findings.json'))
want = set(sys.argv[1:])
seen = {}
for path in sorted(glob.glob(f'{root}/evidence/parts/C*.json')):
    d = json.load(open(path))
    pid = d['property_id']
    if want and pid not in want:
        continue
    base = os.path.basename(path).split('.')
    if len(base) != 3:      # Cxx.<profile>.json only (no sub-parts)
        continue
    key = f"{d['tier']}.{d['coverage']['build_profile']}"
    seen.setdefault(pid, {})[key] = d['coverage'].get('known_findings_matched', {})
n = 0
for e in kf:
    if e.get('status') != 'known' or e['property'] not in seen:
        continue
    for key, counts in seen[e['property']].items():
        e.setdefault('max_matches', {})[key] = int(counts.get(e['id'], 0))
        n += 1
json.dump(kf, open(f'{root}/known_findings.json', 'w'), indent=1)
print({p: sorted(v) for p, v in seen.items()}, n, 'counts recorded')
