#!/bin/bash
# next_seed.sh <Cxx> <letter> : prompt + worktree for the next seed of a property, listing the earlier seeds' summaries to avoid
pid=$1; letter=$2
note=$(python3 - <<PY
import json,glob
out=[]
for i,d in enumerate(sorted(glob.glob('/verif/seeded/$pid-*'))):
    m=json.load(open(d+'/meta.json')); out.append("(%d) %s" % (i+1, m['summary'][:260].replace('\n',' ').replace('"',"'")))
print(' '.join(out))
PY
)
/verif/tools/mk_seed_prompt.py $pid ${pid}${letter} "$note"
