#!/usr/bin/env python3
"""Generates /verif/MANIFEST.json from the table below (single source of truth for what is claimed)."""
import json
import subprocess

HOOK_COMMITS = subprocess.run(["git", "-C", "/repo", "log", "--format=%H %s", "--grep=^verif-hooks"], capture_output=True, text=True).stdout.strip().splitlines()

# pid -> dict(category, text, note, technique, design_ref) ; only implemented checks are listed here
CLAIMED = {
    "C01": dict(
        category="exploration",
        technique="exhaustive enumeration of grid point (multi)sets x construction configurations through the real constructors, judged by exact-arithmetic and brute-force reference models",
        text="Every subset of small exact grids per dimension (all 466 subsets of the 3x3 grid under the full 864-configuration product; subsets of the 4x4 grid, the unit cube (+centre), D=4/5 cube alphabets and a general-position moment-curve family under every single-axis deviation from the default configuration, and the guarantee x ordering product on every 5th degenerate D>=3 set), every ordered arrangement for the Input ordering, and multiset / 2^+-40 scale / 2^30 shift / near-duplicate / clustered variants are built through both kernels in the release and the debug-assertion profile. Every Ok result is re-validated from its raw cells by an independent reference (Levels 1-3 at the configured guarantee incl. completion-time vertex links, convex embedding, exact empty-circumsphere outside the tolerance band, vertex/UUID/data/perturbation accounting, statistics identities); panics are violations. Exhaustive over the stated alphabets; nothing sampled.",
        note="Trusts the harness's exact arithmetic and reference validators; verdicts cover the listed alphabets only. Known genuine defects (non-Delaunay results certified in D>=4 and for one 2-D clustered family) are listed in known_findings.json by (dimension, kernel, input family, mechanism) and reported as KNOWN-FINDING lines.",
        design_ref="DESIGN.md section 4 (C01)"),
    "C02": dict(
        category="model_checking",
        technique="explicit-state BFS over insertion histories on the real object (stateless re-execution of the real insert calls), reference-model check after every transition",
        text="Breadth-first search whose transition is the real insert / insert_with_statistics call on a clone of the real DelaunayTriangulation: every history over the per-dimension point alphabet (3x3 grid, unit cube + centre, D=4/5 cube alphabets; duplicates, on-edge/on-vertex, collinear and coplanar bootstrap prefixes included) to the reported depth, from the empty triangulation and from batch-constructed seeds, under the default policies and every single-policy deviation (ValidationPolicy, TopologyGuarantee, repair policy, check policy) plus at most one mid-history policy change, and a 'latent violation, then switch-on' family (histories built under repair policy Never on alphabets with flat simplices and outliers; from every state that is not Delaunay the repair policy EveryInsertion and the check policy EveryN(1) are switched on - two mid-history changes at any vertex count - followed by every one- and two-insertion continuation through both entry points); both kernels, release and debug-assertion profiles. After every call, whatever it returned, the state must be the bootstrap state or pass the independent Level 1-3 reference at the current guarantee; Inserted must add exactly the caller's vertex and the returned key must resolve to it; under check policy EveryN(1) an Inserted state must have no certain empty-circumsphere violation. States are de-duplicated on an ordered dump that includes the hidden caches (hook).",
        note="Exhaustive to the depth recorded in the evidence file only; alphabets are small exact grids. Trusts the reference validators, the exact oracle and that the hidden-state digest hook is read-only. Panicking transitions are counted but judged by C19.",
        design_ref="DESIGN.md section 5 (C02)"),
    "C03": dict(
        category="fault_enumeration",
        technique="exhaustive fault enumeration on the real code: every mutation op in every BFS state (natural failures) and every failpoint site x hit index x error flavour armed one at a time, with fingerprint-equality and differential-future oracles",
        text="For every state of a breadth-first exploration (insert/remove/flip/repair histories from the empty triangulation and from batch-constructed seeds, D=2..5, both kernels, default policies plus repair/check/validation/guarantee deviations incl. repair x check pairs), every op of the mutation alphabet is applied: insert (both entry points, every alphabet point), duplicate-UUID insert, remove of every vertex and of an unknown vertex, every flip handle that can be formed incl. stale / foreign / out-of-range ones (k=1 insertion into a foreign cell and with the UUID of an existing vertex included), both repair entry points. Whenever a call returns Err or Skipped the semantic fingerprint (vertices with UUID, coordinate bits, data; cells as vertex-UUID sets; neighbour pairs; counts; policies) must equal the one taken before the call, and a menu of follow-up operations must give equal results on the survivor and on a pristine clone (this is what exposes caches that did not roll back). Then, for the states up to the recorded depth, the operation is re-run once per (failpoint site, hit index <= 3, error flavour) with exactly that internal error return forced (guarded hooks at 40 sites in insertion, cavity, hull extension, post-insertion repair/check, removal, flips and repair postcondition): a surfaced failure must satisfy the same oracle, an absorbed one must leave a state that passes the independent Level 1-3 reference.",
        note="Deviation bound: one injected failure per operation. Failpoints are inert unless armed on the calling thread. The sites are a finite list chosen by reading the code (Appendix A of DESIGN.md), not every `?` in the crate. Known finding: public Edit-API flips are not rolled back when an internal step fails after the first mutation (listed per flip kind). Three genuine defects found by this check were repaired (`fix:` commits 2901a58, 5e1db2b, 74d670e).",
        design_ref="DESIGN.md section 5 (C03), 2.5, Appendix A"),
    "C04": dict(
        category="model_checking",
        technique="explicit-state enumeration of the complete flip-graph closure with the real flip calls; every state judged against an exact (bigint) empty-circumsphere oracle",
        text="For every subset (sizes D+2..D+5) of per-dimension point alphabets - degenerate grids and an exactly verified general-position family, D=2..5, both kernels - the complete closure under the k>=2 Edit-API flips is computed by BFS over real DelaunayTriangulation objects (so every flip distance from Delaunay that exists for the point set is a state), from the batch-constructed triangulation and again from a build with recycled vertex slots. Every state that passes the independent Level 1-3 + convex-embedding reference is judged through is_valid, validate, validation_report, is_delaunay_via_flips and find_delaunay_violations: accept => no vertex certainly strictly inside a circumsphere in exact arithmetic outside the recomputed tolerance band (soundness); general position and strictly Delaunay => not rejected (completeness).",
        note="State identity in the closure is the cell set (verdicts are functions of the complex). Trusts the exact oracle and the reference validators. Known genuine defects (degenerate-flip skip in D=3, both-positive suppression in D>=4, band-limited local checks on slivers) are listed in known_findings.json per (api group, D, family, mechanism).",
        design_ref="DESIGN.md section 5 (C04)"),
    "C07": dict(
        category="model_checking",
        technique="explicit-state exploration of the flip-graph closure; every flip handle in every state applied to the real object and judged against recomputed combinatorial invariants and the inverse move",
        text="In every state of the cap-bounded combinatorial closure of each small point set (D=2..5, degenerate and moment-curve families, both kernels), started from the batch-constructed triangulation and from a build with recycled vertex slots (every slot occupied and vacated before, so that key order by (index, version) and by raw value disagree): all six Edit-API entry points x every handle that can be formed (every cell x facet index incl. D+1 and 255, every ridge index pair incl. equal indices, every vertex pair and triple, every vertex, stale/foreign keys, k=1 insertion at an interior and a far point). Every flip that reports success must leave Levels 1-2 valid by the independent reference, preserve facet degrees, closed boundary, connectedness, Euler characteristic, boundary facet set and vertex set (k>=2), change the cell count by (D+2-k)-k, describe removed/new cells exactly (new cells == star of the inserted face), and the inverse move addressed through the created face must succeed and restore the identical cell set.",
        note="Closures above the cap are truncated (reported as closures_capped / exhaustive=false for those). Err outcomes are C03's subject.",
        design_ref="DESIGN.md section 5 (C07)"),
    "C08": dict(
        category="model_checking",
        technique="explicit-state enumeration of repair starts (complete flip-graph closure, removal and repair-off insertion successors) with the real repair calls; exact oracle and brute-force unique-Delaunay reference",
        text="Both repair entry points are run from every valid state of the complete flip closure of each point set (every flip distance; from the batch-constructed triangulation and from a build with recycled vertex slots), from each seed after removing each vertex with repair disabled and from the incremental build with repair disabled, under all three topology guarantees, both kernels, D=2..5. On Ok: identical vertex set (UUID, coordinate bits, data), independent Level 1-3 reference, no certain exact empty-circumsphere violation, and for exactly general-position sets the cell set must equal the brute-force unique Delaunay triangulation; on Err the fingerprint must be unchanged; Ok is a violation when the public admissibility predicate rejects flips under the guarantee; every call must return within the work ceiling.",
        note="Known genuine defects (repair certifies non-Delaunay results in D=3 via the degenerate-flip skip and in D>=4 via the both-positive suppression) are listed per (op, D, family, start kind, mechanism). One defect found here was repaired (fix: 2cc646d, negative orientation after public repair).",
        design_ref="DESIGN.md section 5 (C08)"),
    "C09": dict(
        category="model_checking",
        technique="explicit-state BFS over mixed operation histories on the real object with a reference model (list of live / former positions) and exhaustive probe insertions in every state",
        text="Breadth-first search over histories of {insert, remove_vertex, Edit-API k=1 insert / k=1 remove, repair_delaunay_with_flips_advanced, clone swap, serde round-trip swap, mutable-view touch} from the empty triangulation and from constructed seeds (D=2..4, 5 in thorough; both kernels; alphabets containing on-edge and collinear points so that perturbation retries occur). In every reached state: all live vertices are pairwise at least the documented tolerance apart (exact arithmetic) and UUIDs are unique; then, on a clone, an insertion (both entry points) is probed at q, q+-0.5e-10 and q+-2e-10 for every current (stored) and every former vertex position q, and the outcome must be the duplicate-coordinates outcome exactly when the reference model has a live vertex strictly within 1e-10 (a refusal that names a perturbed retry candidate lying exactly within the tolerance of a live vertex counts as a refusal of a live duplicate); re-using a live UUID must give the duplicate-UUID error.",
        note="Probes within 1% of the tolerance boundary are skipped. Batch-construction skipping/counting of duplicates is covered by C01's multiset and near-duplicate families. Two genuine defects found by this check were repaired (fix: 59315ef Edit-API flips bypassed the spatial index; fix: 289869f index kept stale keys after the initial-simplex rebuild).",
        design_ref="DESIGN.md section 5 (C09)"),
    "C05": dict(
        category="fault_enumeration",
        technique="exhaustive enumeration of a fault catalogue at every location of every seed complex (through guarded raw mutators), library verdict per level compared with an independent reference verdict",
        text="For every batch-constructed subject (subsets of scaled grids, D=2..5, all three guarantees on D=2,3, both kernels) each of 27 fault kinds - non-finite coordinate, nil UUID, cell with missing / extra / repeated vertex, short neighbour buffer, UUID-map entry removed / redirected, cell referencing a removed vertex, dangling / wrong incident cell, duplicate cell, neighbour slot cleared / invented / wrong cell / dangling / rotated, vertex slots swapped with and without their neighbour slots, raw cell removal, isolated vertex, two vertices identified (pinched links), cell vertex replaced (inverted / overlapping cells), vertex moved onto / across the opposite facet / far away - is injected at every location, plus a strided set of fault pairs on complexes with at most 4 cells. Shapes that no single fault produces are added through the public Deserialize impl: the cone, double and triple cone (up to D=5) over every D=2 / D=3 subject with every topological single fault (vertices identified, cell removed, cell vertex replaced), and hand-built locally embedded complexes (two closed fans / two closed octahedral vertex stars sharing only their centre, joined facet-to-facet by a strip; with and without the second fan / star; each with every topological single fault) and all their cones, each judged under all three guarantees. The reference recomputes Levels 1-3 (and completion-time vertex links) from the raw cells; the lowest violated level owns the fault: the library's validator of that level must reject, every lower level must accept, uncorrupted library output must be accepted by everything, tds.validate / triangulation.validate / dt.validate must equal the conjunction of their levels, validation_report must be Ok exactly when validate is, and no validator may panic.",
        note="Geometric verdicts whose determinant is non-zero but inside the tolerance band are skipped; exactly flat cells are certain. Faults are applied through the verif-hooks raw accessors only; shapes are loaded through serde. Known finding: in D>=4 the vertex-link validator accepts a star pinched along an edge (link = two balls meeting in a point).",
        design_ref="DESIGN.md section 5 (C05), Appendix B"),
    "C06": dict(
        category="model_checking",
        technique="exhaustive enumeration of (state, vertex) removal transitions on the real object plus BFS insert/remove histories; independent reference and exact oracle on every successor",
        text="Every vertex (interior, hull, degree-(D+1) star, one of the last D+2) of the batch-constructed triangulation of every subset of the per-dimension alphabets (3x3 and 4x4 grids, unit cube + centre, D=4/5 cube alphabets, moment curves) is removed under the repair policies EveryInsertion, Never and EveryN(2) (insertion counter of either parity; all three guarantees on the smallest family), then every vertex of every successor again on small sets, plus breadth-first insert/remove histories from seeds. On Ok: the vertex is gone, every other vertex keeps UUID, coordinate bits and data, the result is the bootstrap state or passes the independent Level 1-3 reference, and with repair enabled has no certain exact empty-circumsphere violation (under EveryN only when the state before the removal had none); Err must leave the fingerprint unchanged; removing an unknown vertex must return Ok(0) and change nothing.",
        note="Known genuine defects: hull-vertex removal returns Ok with an invalid complex (listed per dimension / symptom / repair setting with victim=hull), and repair-on removals inherit the Level-4 verifier's blind spots. Interior-vertex violations are not listed and are reported.",
        design_ref="DESIGN.md section 5 (C06)"),
    "C10": dict(
        category="model_checking",
        technique="exhaustive enumeration of (valid state, query point, hint) triples through the real locate functions, judged by exact point-in-closed-simplex tests",
        text="For every valid corpus state (batch-constructed, every valid flip-closure state up to a cap, incremental build, after each vertex removal) of every subset of the alphabets (D=2..5, both kernels): every point of the half-step refinement of the bounding grid extended by one cell (D<=3) plus all vertices, edge midpoints, cell and facet centroids and outward reflections through facets, with every hint class (none, live cells, a removed key, a foreign key), through locate and locate_with_stats. InsideCell(c) requires the point in c's closed simplex (exact arithmetic); Outside requires the point strictly outside every cell; the answer class (a containing cell / OnVertex, which names no cell / Outside) must not depend on the hint; both entry points must agree.",
        note="Quick tier uses 3 evenly spread live-cell hints per state (all cells in thorough). Queries with a non-zero facet determinant inside the tolerance band are skipped (none occur on the half-integer grids).",
        design_ref="DESIGN.md section 5 (C10)"),
    "C11": dict(
        category="model_checking",
        technique="exhaustive enumeration of (valid state, operation, hull query) triples on the real objects; reference boundary and exact sidedness oracle; staleness obligations derived from observed change or recorded post-mutation failpoint hits",
        text="For every valid corpus state (D=2..5, both kernels) a ConvexHull is built on an independent copy of the triangulation (own generation counter): its facets must be exactly the facets incident to one cell, form a closed surface with every vertex on the closed inner side (exact), validate() must accept, and find_visible_facets / is_point_outside / is_facet_visible_from_point must equal exact sidedness for every decidable query point (centroid, reflections of vertices and facets, far axis points, and points lying exactly in the supporting hyperplane of a hull facet outside the facet). Then every op of the alphabet - inserts (incl. one with 1e200 coordinates that mutates and rolls back), duplicate-UUID insert, removal of every vertex and of an unknown one, flip handles, both repairs, policy setters, mutable-view touch, clone swap, serde swap - is applied to the very object the hull was built from: if the complex changed, or the operation failed after mutating (a failpoint site was reached in record mode) and rolled back, every hull query must report staleness; if nothing changed and the hull still answers, the answers must still be exact.",
        note="Each (state, op) pair uses a serde-rebuilt object so that no sibling's generation bump can mask a missing one (the counter is an Arc shared with clones). Policy setters are not changes to the triangulation (a first version of this check alarmed on them: corrected, see DESIGN.md). One genuine defect was repaired (fix: 7d2e1b6, facets coplanar with the query reported visible).",
        design_ref="DESIGN.md section 5 (C11)"),
    "C13": dict(
        category="fault_enumeration",
        technique="exhaustive round trips of enumerated states plus enumeration of every single-field corruption of their JSON documents from a mutation menu, judged by fingerprint equality and an independent Level 1-2 reference",
        text="Subjects: every valid corpus state (constructed, valid flip-closure states, incremental, after removal) plus bootstrap-phase triangulations (0..D vertices, no cells), a state with vacated slots (remove + insert) and a state with u8 cell data, with i32 vertex data, D=2..5. Each is serialised and deserialised through the Tds route (+ from_tds, both kernels) and the DelaunayTriangulation route (FastKernel, (), ()): equal semantic fingerprint incl. cell UUIDs, ==, identical verdicts of all seven validators, and for general-position sets every single follow-up insert / removal must give equal results on the original and the restored object. Then every single-field mutation of the document from the menu (UUID -> another live / unknown / nil; entry dropped / duplicated; slot version +-1; coordinate -> null / \"Infinity\" / string / other value / another vertex's point; cell vertex list entry removed / unknown / repeated / duplicated / replaced by another live vertex / swapped / copied from another cell; table entries added / dropped; sections emptied) must be rejected, or the loaded value must pass the independent Level 1-2 reference; panics are violations.",
        note="The harness builds serde_json with float_roundtrip: without it serde_json's float parser can be 1 ulp off, which is not the crate's doing. Known finding: orientation-incoherent documents load (kept for the crate's tamper-detection tests). One genuine defect was repaired (fix: f90e2aa).",
        design_ref="DESIGN.md section 5 (C13)"),
    "C16": dict(
        category="exploration",
        technique="exhaustive enumeration of boundary-value coordinate alphabets x period vectors through the wrapping functions and the toroidal builder, with exact in-box / congruence / idempotence checks and the C01 reference on the wrapped result",
        text="Per-axis alphabet of boundary values (-2L, -L-ulp, -L, -1e-20, -0.0, 0, 5e-324, L/3, L/2, L-ulp, L, L+ulp, 2L, +-(1e6 L + 0.3 L), L/4, 5L/4, -3L/4) for L in {1, 0.75, 3, 2^-20} and mixed period vectors through ToroidalSpace::wrap_coord / canonicalize_point (D=1..3): result in the half-open box, congruent to the input, idempotent. All 3-point and a strided enumeration of 4-point (5 in thorough) D=2 sets over that alphabet through the toroidal builder: every result vertex in the box and congruent to its input (UUID, data kept), result passes the independent Level 1-3 + convex embedding reference and the exact Delaunay oracle, and every follow-up insert of an alphabet point is stored wrapped. Periodic (image-point) mode on 5..7-point subsets of a skewed 4x4 grid: when Ok, closed (every neighbour slot filled and reciprocated), Euler characteristic 0 (F = 2V), each input exactly once.",
        note="A first version judged the periodic quotient by vertex-set face identity, which is wrong for quotients on few vertices (false alarm, corrected: see DESIGN.md). Two genuine defects were repaired (fix: 19ee8cf, 6d9cd9e).",
        design_ref="DESIGN.md section 4 (C16)"),
    "C14": dict(
        category="model_checking",
        technique="exhaustive enumeration of input permutations x construction options with result-digest equality, brute-force unique-Delaunay reference, and all operation-granularity schedules of 4 operations on two real threads",
        text="For every input of the families (general-position and degenerate sets, D=2..5, both kernels): every ordering x dedup x retry option is built twice in process, again in a freshly spawned thread, and (retry disabled) with random instead of deterministic UUIDs - the cell sets (as coordinate tuples) must be identical; for Hilbert / Morton / Lexicographic every permutation of the caller's slice (all n! for n <= 6; near-duplicate pairs below the tolerance, alone and together with an outlier that pushes epsilon dedup onto its quantised / quadratic fallbacks) must give the same result; for exactly general-position sets every Ok result of any strategy / kernel and the incremental build must equal the brute-force unique Delaunay triangulation. Schedules: all 24 orders x 16 thread assignments of four operations (two batch builds, flip + repair_advanced, incremental inserts) on two persistent worker threads handing over between operations, compared with the sequential results; plus a child process of the same binary rebuilding a fixed list of inputs.",
        note="Schedules are explored at operation granularity only: the crate contains no lock, channel, condition or spawned thread; its only thread-affine state on a decision path is a recursion-guard thread-local, and the shared generation counter is a monotone fetch_add (DESIGN.md section 9). loom/shuttle have nothing to intercept.",
        design_ref="DESIGN.md section 5 (C14), section 9"),
    "C15": dict(
        category="model_checking",
        technique="exhaustive enumeration of (valid state, query API, key) triples compared with brute-force face enumeration of the raw cells",
        text="On every valid corpus state (constructed, valid flip-closure states, incremental build, after removal, after repair, after one more insertion; D=2..5, both kernels) every query API - edges, number_of_edges, incident_edges, adjacent_cells, cell_neighbors, facets, boundary_facets, number_of_boundary_facets, cell_vertices, vertex_coords, the AdjacencyIndex and every *_with_index twin, count_simplices, count_boundary_simplices, euler_characteristic, classify_triangulation - is evaluated for every live vertex / cell key and one foreign key each and compared with values obtained by enumerating faces of the stored cells directly; every triangulation with cells must be classified as a ball (single simplex) with chi = 1 and a closed boundary sphere.",
        note="Brute-force enumeration reads cells and vertices through the public iterators only.",
        design_ref="DESIGN.md section 5 (C15)"),
    "C17": dict(
        category="exploration",
        technique="exhaustive enumeration of every Hilbert grid cell at small bit depths and of every vertex list over a tie-rich alphabet through every ordering / dedup implementation, with exact oracles",
        text="Hilbert: every cell of the 2^(bD) grid for D=1..5 and every bit depth b with bD <= 20 (24 in thorough) through hilbert_indices_prequantized: the indices are a bijection onto [0, 2^(bD)) and consecutive indices are grid cells that differ by 1 in exactly one coordinate; hilbert_index at cell centres equals quantize-then-index. Orderings / dedup: every vertex list up to the stated length over the full product of a per-axis alphabet with signed zeros, a near-duplicate pair (1, 1+1e-11), 4e9 (coordinate/tolerance ratio beyond i64) and 1e300, plus chain alphabets (0, 0.3, .., 1.2 with eps = 0.5: far-but-adjacent-cell, near, and tested vertex inside one neighbourhood of tolerance-sized cells, D=1..3), with deterministic UUIDs and data, through the four ordering strategies (output must be a permutation of the input as a multiset of (UUID, coordinate bits, data)), the two public dedup helpers and the five private batch dedup implementations via guarded wrappers (exact: exactly one representative per distinct coordinate tuple; epsilon in {1e-10, 0.5}: survivors are input vertices, none twice, pairwise not within the tolerance, every dropped vertex within the tolerance of a survivor - exact distance comparisons).",
        note="Epsilon claims exclude a 1% shell around the tolerance and lists containing 1e300 (distance overflow). Needs the verif-hooks wrappers for the private implementations.",
        design_ref="DESIGN.md section 4 (C17)"),
    "C18": dict(
        category="exploration",
        technique="exhaustive enumeration of grid simplices x vertex orders x translations x dyadic scalings against exact big-integer Gram / Cramer values",
        text="Every (D+1)-subset (strided where stated in the evidence) of per-dimension integer alphabets for D=1..5, exactly degenerate ones included, under vertex reorderings, translations by (7,-3,5,-2,4) and 1024 (D<=3) and scalings by 2^+-10, through simplex_volume, facet_measure (every facet), circumcenter, circumradius, inradius, radius_ratio and normalized_volume. Values of non-degenerate simplices must agree with the exact rational value (big-integer Gram determinants, Cramer circumcentre) within 1e-9 relative, be invariant under reorder / translation, and scale with the right power; an exactly degenerate simplex must give an error from simplex_volume, inradius, circumcenter and circumradius, a flat facet must not get a finite non-zero facet_measure, and the non-flat facets of a flat simplex must still match their exact measure (one finding per function).",
        note="Nothing is asserted for simplices with an exact measure below 1e-9 (the crate's absolute degeneracy thresholds). Known finding: circumcenter / circumradius return finite garbage for exactly degenerate simplices in every dimension (zero-tolerance LU retry). One genuine defect was repaired (fix: 4c7480c, scale-dependent degeneracy tolerance of the Gram determinant).",
        design_ref="DESIGN.md section 4 (C18)"),
    "C19": dict(
        category="model_checking",
        technique="explicit-state BFS over the full operation alphabet incl. adversarial coordinates and handles, every real call under catch_unwind with a work ceiling; release and debug-assertion profiles",
        text="Breadth-first exploration from empty and constructed seeds (D=2..5, both kernels) where every transition is a real public API call under catch_unwind with a 60 s ceiling: inserts of the grid alphabet and of adversarial coordinates (+-1e300, 1e-300, 5e-324, f64::MAX/MIN, 1e154, -0.0, NaN, +-inf on one axis and on every axis) through both entry points, removal of every vertex / an out-of-range ordinal / an unknown vertex, duplicate UUIDs, every flip handle incl. stale, foreign and out-of-range ones and k=1 insertion at adversarial points, both repairs, all policy setters, clone / serde swaps, the mutable view; plus batch constructions and predicate / measure calls on tuples mixing ordinary and adversarial coordinates. Every call must return, none may panic, and no non-finite coordinate may ever be stored. Run in the release and the debug-assertion profile (debug_assert! panics count). The other explorers also run every call under catch_unwind and count panics in their outcome histograms.",
        note="The ceiling detects non-termination and blow-ups, not asymptotic regressions. Two genuine defects were repaired (NaN/inf accepted during bootstrap; debug-build panic in Gram-determinant measures on overflowing input).",
        design_ref="DESIGN.md section 5 (C19)"),
    "C12": dict(
        category="exploration",
        technique="exhaustive enumeration of grid tuples x vertex orders x scale variants against an exact (bigint) sign oracle",
        text="Every (D+1)-subset (and one-repeated-point multiset) of small exact grids x every query point x every vertex order (D<=3; cyclic+transpositions for D=4,5 in quick, all in thorough) x dyadic scale/shift variants is evaluated through both kernels, four robust configurations and the three in-sphere formulations; the result must equal the exact determinant sign whenever |det| exceeds the recomputed tolerance plus an a-priori LU rounding bound, and must be the degenerate/boundary value when the exact determinant is 0 and the rounding bound is below the tolerance. Exhaustive over the stated alphabets, no sampling.",
        note="Trusts the harness's exact arithmetic (self-checked at start-up against an independent circumcentre formulation) and the rounding-bound formula; nothing is claimed for determinants inside the band or for coordinates outside the alphabets.",
        design_ref="DESIGN.md section 4 (C12)"),
}

NOT_YET = {}

def main():
    props = [json.loads(l) for l in open("/verif/properties.jsonl")]
    checks, na = [], []
    for p in props:
        pid = p["id"]
        if pid in CLAIMED:
            c = CLAIMED[pid]
            checks.append({
                "property_id": pid,
                "quick_cmd": f"./check {pid} --tier quick",
                "thorough_cmd": f"./check {pid} --tier thorough",
                "evidence_file": f"/verif/evidence/{pid}.json",
                "replay_cmd_template": "./check replay {path}",
                "engine": "vharness",
                "level_claimed": {"category": c["category"], "text": c["text"], "design_ref": c["design_ref"]},
                "level_note": c["note"],
                "technique": c["technique"],
            })
        else:
            na.append({"property_id": pid, "reason": NOT_YET.get(pid, "check not built yet in this revision of /verif (planned, see DESIGN.md); not claimed until its binary exists and passes on the unchanged tree")})
    m = {
        "version": 1,
        "setup_cmd": "./check setup",
        "hooks": {
            "guard": "cargo feature `verif-hooks` (off by default)",
            "enable": "the harness crate depends on delaunay = { path = \"/repo\", features = [\"verif-hooks\"] }; ./check runs `cargo build --offline` so every edit under /repo is rebuilt",
            "baseline_off_cmd": "cd /repo && cargo nextest run --workspace --no-fail-fast --tool-config-file pb:/w/lib/nextest.toml --profile pb --test-threads 8 --offline",
            "source_commits": [l.split()[0] for l in HOOK_COMMITS],
            "add_only": True,
        },
        "engines": [{
            "name": "vharness",
            "path": "/verif/harness",
            "serves_properties": sorted(CLAIMED),
            "kind_free_text": "purpose-built bounded-exhaustive explorer in Rust that drives the real crate (stateless re-execution / explicit-state BFS over real DelaunayTriangulation objects, fault enumeration through guarded hooks) against exact-arithmetic and brute-force reference models",
        }],
        "checks": checks,
        "not_applicable": na,
        "notes": "Exit codes: 0 held / 1 violation (VIOLATION lines) / 2 machinery problem. Known findings are listed in /verif/known_findings.json and printed as KNOWN-FINDING lines.",
    }
    json.dump(m, open("/verif/MANIFEST.json", "w"), indent=1)
    print("claimed:", sorted(CLAIMED), "not claimed:", [x["property_id"] for x in na])

if __name__ == "__main__":
    main()
