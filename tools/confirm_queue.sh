#!/bin/bash
# runs confirm_seed.sh for each name given, sequentially
for n in "$@"; do /verif/tools/confirm_seed.sh $n /tmp/seed/$n > /tmp/seed/confirm_$n.log 2>&1; done
