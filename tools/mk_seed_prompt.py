#!/usr/bin/env python3
"""mk_seed_prompt.py <Cxx> <name> ["one-line note on earlier seeds to avoid"]
Creates a scratch worktree /tmp/seed/<name> of /repo (HEAD) and writes /tmp/seed/prompts/<name>.txt: the brief
for a fresh sub-agent. The brief contains only the text of the property (from properties.jsonl) and the rules of
the exercise - nothing about /verif."""
import json, os, subprocess, sys
pid, name = sys.argv[1], sys.argv[2]
note = sys.argv[3] if len(sys.argv) > 3 else ""
prop = next(json.loads(l) for l in open('/verif/properties.jsonl') if json.loads(l)['id'] == pid)
wt = f'/tmp/seed/{name}'
os.makedirs('/tmp/seed/prompts', exist_ok=True)
if not os.path.isdir(wt):
    subprocess.check_call(['git', '-C', '/repo', 'worktree', 'add', '--detach', wt, 'HEAD', '-q'])
mech = '; '.join(f"{m['name']} ({m['where']})" for m in prop['anchors'].get('mechanism', []))
avoid = ""
if note:
    avoid = f"\nNOTE: earlier exercises already seeded these defects: {note} Choose a DIFFERENT mechanism and a different part of the code.\n"
txt = f"""You are helping evaluate a verification framework for the Rust crate `delaunay` (acgetchell/delaunay, a D-dimensional Delaunay triangulation library). Your job: produce ONE realistic, subtle source change (a "seeded defect") to the crate that BREAKS the semantic property below, while the crate still compiles and its existing test suite still passes.

Work ONLY inside your own scratch git worktree: {wt}  (a detached worktree of the repository). Do NOT read, write or cd into /repo or /verif - they are off limits. No network is available; always pass --offline to cargo. Use at most 6 build/test threads (other jobs share this machine).

## The property ({pid}: {prop['title']})

Statement: {prop['statement']}

Quantified over: {prop['quantifier']['text']}

Why the existing tests cannot settle it: {prop['why_tests_cant']}

Code the property is anchored in: {', '.join(prop['anchors']['files'])}
Mechanisms meant to make it hold: {mech}
{avoid}
## What to deliver

1. A source change under {wt}/src that makes the property FALSE for some input / history / configuration, such that:
   - the crate compiles (`cargo build --offline`) without new warnings-as-errors,
   - the existing test suite still passes. The exact command is (run it from {wt}):
     `cargo nextest run --workspace --no-fail-fast --tool-config-file pb:/w/lib/nextest.toml --profile pb --test-threads 6 --offline`
     On the unmodified tree this gives 1717 passed (compare against a run of the unmodified tree if in doubt - the set of failing tests must not grow). Doc-tests are not part of it. One test, `test_builder_toroidal_periodic_3d_success`, takes about 5 minutes and can hit the 300 s limit (TIMEOUT) on this loaded machine even on the unmodified tree: ignore a timeout of that one test.
   - the change needs something SPECIFIC to manifest: a particular multi-step sequence of operations, a failure/rollback at a particular internal point, an unusual (e.g. exactly degenerate, boundary-valued, or stale-handle) input, a particular configuration/policy combination, one dimension only, or two cooperating sites that each look fine alone. Do NOT produce a change that ordinary use would expose at once (e.g. every construction failing).
   - it is realistic: the kind of slip a maintainer could make in a refactor or optimisation (dropped cache update, missed rollback of one field, off-by-one in a guard, a tolerance/sign comparison flipped in one branch, a forgotten counter bump, a skipped check under one policy...). Keep it small (a few lines, at most ~30).
   - do not touch code behind the `verif-hooks` cargo feature (`verif_*` functions, `verif_failpoint!`): it is test instrumentation, not part of the library.
2. A demonstration: a small Rust integration test file `{wt}/tests/seeded_demo.rs` (or an example program) using only the crate's public API that FAILS with your change and PASSES without it. It must be deterministic.
3. Verify all of it yourself: (a) demo passes on the unmodified tree (`git stash` or apply/unapply the patch), (b) demo fails with the change, (c) the full existing suite passes with the change (the demo file itself excluded - run the suite with the demo file moved away, or confirm only the demo fails).
4. Write these files into {wt}/seeded_out/ :
   - `patch.diff`  - `git diff` of the source change only (src/ files; NOT the demo), applicable with `git apply` from the repo root
   - `seeded_demo.rs` - the demonstration test
   - `meta.json` - {{"property": "{pid}", "summary": "...what was changed...", "needs_to_manifest": "...the specific sequence/input/fault/config...", "commands_run": ["..."], "suite_result_with_change": "N passed / M failed", "demo_result_without_change": "pass", "demo_result_with_change": "fail"}}
5. Leave the worktree with the change APPLIED and the demo present. Final reply: a short summary of the change, what it needs to manifest, and the verification results.

Tips: the public API is documented in {wt}/README.md, {wt}/docs/ and rustdoc comments; `delaunay::prelude::triangulation::*` has most of it; tests/ has usage examples. Vertices with explicit UUIDs: `Vertex::new_with_uuid(Point::new([..]), uuid, data)`. A full test run takes ~7-10 minutes; build first and iterate with your demo before running the full suite. If your first idea makes existing tests fail, pick a narrower one.
"""
open(f'/tmp/seed/prompts/{name}.txt', 'w').write(txt)
print(wt, len(txt))
