#!/bin/bash
# run_all.sh [tier] : run every claimed check on the current tree, print exit code and wall time
tier=${1:-quick}
cd /verif
for c in $(python3 -c "import json; print(' '.join(x['property_id'] for x in json.load(open('MANIFEST.json'))['checks']))"); do
  s=$(date +%s); ./check $c --tier $tier > /tmp/all_$c.out 2>&1; rc=$?; e=$(date +%s)
  echo "$c exit=$rc wall=$((e-s))s known=$(grep -c '^KNOWN-FINDING' /tmp/all_$c.out) viol=$(grep -c '^VIOLATION' /tmp/all_$c.out)"
done
